#!/bin/sh
# MANIFEST.setup_cmd: offline; verifies tool presence, parses every specification, creates output dirs.
set -e
cd "$(dirname "$0")"
mkdir -p evidence replays
command -v java >/dev/null
test -f /opt/veriftools/tla/tla2tools.jar
/venv/bin/python -c "import hypothesis, bs4" >/dev/null
/venv/bin/python tools/sany_all.py
echo "setup ok"

------------------------------ MODULE Filenames ------------------------------
(***************************************************************************)
(* Machine layer for plasTeX.Filenames (property C15), shaped like         *)
(* Filenames._newFilename: one action per branch of the generator.         *)
(*                                                                         *)
(* Constants are supplied as literals by a generated MC module.            *)
(*   Statics, Wild : Seq(Alt)  -- the template after parseFilenames and     *)
(*                                the "last static becomes the wildcard"   *)
(*                                rule (done by the harness AND checked    *)
(*                                against parseFilenames in conformance)   *)
(*   Bad           : set of forbidden characters, Repl: Seq(Char)          *)
(*   Ext           : Seq(Char)                                             *)
(*   Reserved      : set of names that may never be issued                 *)
(*   G             : initial namespace  Var -> value | Unbound             *)
(*   Bindings      : set of per-request bindings (partial namespaces:      *)
(*                   Var -> value | Unbound, Unbound = "caller sets        *)
(*                   nothing for this variable")                           *)
(*   MaxReq        : number of requests explored                           *)
(*   MaxPasses     : the code's constant 100                               *)
(*   WordsFirst    : TRUE = word limit applied before the forbidden-char   *)
(*                   substitution (documented); FALSE = after (as the code *)
(*                   did before the F20 repair)                            *)
(*   LazyInitial   : TRUE = the namespace restored after each request is   *)
(*                   captured when the generator body first runs, i.e.     *)
(*                   AFTER the caller bound the variables of the first     *)
(*                   request (as the code did before the F23 repair);      *)
(*                   FALSE = it is the namespace given to the constructor  *)
(*   ResetOnSkip   : TRUE = namespace reset also when a candidate is       *)
(*                   skipped as taken (as the code did before the F21      *)
(*                   repair); FALSE = only when a name is issued           *)
(***************************************************************************)
EXTENDS FilenamesRules, Json

CONSTANTS Templates,  \* set of [statics |-> Seq(Alt), wild |-> Seq(Alt)]
          Configs,    \* set of [bad, repl, ext, reserved, g]
          Bindings, MaxReq, MaxPasses, WordsFirst, ResetOnSkip, LazyInitial

VARIABLES tp,       \* the template in use (chosen in Init, constant afterwards)
          cf,       \* the configuration in use (chosen in Init, constant afterwards)
          si,       \* index of the next static template (for item in static)
          alt,      \* index of the wildcard alternative under consideration
          num,      \* the file number counter
          issued,   \* self.invalid: reserved names and everything issued so far
          ns,       \* self.variables as the generator sees it
          g0,       \* the namespace restored after each request (g in the code)
          passes,   \* the pass counter of the wildcard loop
          phase,    \* "idle" | "static" | "wild" | "dead"
          last,     \* result of the last completed request
          nreq,     \* number of requests made
          cur,      \* the namespace the caller presented for the request in progress (ghost)
          pre,      \* abstract state [si, num, issued] when the request started (ghost)
          hist      \* history of (binding, result) for behaviour export (ghost)

vars == <<tp, cf, si, alt, num, issued, ns, g0, passes, phase, last, nreq, cur, pre, hist>>
view == <<tp, cf, si, alt, num, issued, ns, g0, passes, phase, last, nreq, cur, pre>>

Statics == tp.statics
Wild == tp.wild
Bad == cf.bad
Repl == cf.repl
Ext == cf.ext
Reserved == cf.reserved
G == cf.g
Vars == DOMAIN G

Override(base, b) == [v \in Vars |-> IF b[v] # Unbound THEN b[v] ELSE base[v]]

(* the code's rendering of a part: charsub on every namespace value first, then
   the word limit on the substituted value (WordsFirst = FALSE), or the repaired order *)
MachPart(p, n, number) ==
    CASE p.k = "lit" -> p.s
      [] p.k = "num" -> NumText(number, p.w)
      [] p.k = "var" -> IF WordsFirst THEN CharSub(LimitWords(n[p.name], p.fmt), Bad, Repl)
                        ELSE LimitWords(CharSub(n[p.name], Bad, Repl), p.fmt)

RECURSIVE MachRender(_, _, _)
MachRender(a, n, number) ==
    IF a = <<>> THEN <<>> ELSE MachPart(Head(a), n, number) \o MachRender(Tail(a), n, number)

MachName(a, n, number) == AddExt(MachRender(a, n, number), Ext)

Init == /\ tp \in Templates /\ cf \in Configs
        /\ si = 1 /\ alt = 1 /\ num = 1 /\ issued = Reserved /\ ns = G /\ g0 = G /\ passes = 0
        /\ phase = "idle" /\ last = NoneResult /\ nreq = 0 /\ cur = G
        /\ pre = [si |-> 1, num |-> 1, issued |-> Reserved]
        /\ hist = <<>>

(* The caller sets variables[...] and calls the generator. *)
Request(b) ==
    /\ phase = "idle" /\ nreq < MaxReq
    /\ nreq' = nreq + 1
    /\ ns' = Override(ns, b)
    /\ g0' = IF LazyInitial /\ nreq = 0 THEN Override(ns, b) ELSE g0
    /\ cur' = Override(ns, b)
    /\ pre' = [si |-> si, num |-> num, issued |-> issued]
    /\ hist' = Append(hist, [b |-> b, r |-> NoneResult])
    /\ IF si <= Len(Statics)
       THEN phase' = "static" /\ UNCHANGED <<tp, cf, alt, passes>>
       ELSE phase' = "wild" /\ alt' = 1 /\ passes' = passes + 1
    /\ UNCHANGED <<tp, cf, si, num, issued, last>>

Finish(res) == /\ last' = res
               /\ hist' = [hist EXCEPT ![Len(hist)].r = res]

(* ---- static stage: "for item in static" ---- *)
StaticSkipUnbound ==
    /\ phase = "static" /\ si <= Len(Statics)
    /\ ~AllBound(Statics[si], ns)
    /\ si' = si + 1
    /\ UNCHANGED <<tp, cf, alt, num, issued, ns, g0, passes, phase, last, nreq, cur, pre, hist>>

StaticSkipTaken ==
    /\ phase = "static" /\ si <= Len(Statics)
    /\ AllBound(Statics[si], ns)
    /\ MachName(Statics[si], ns, num) \in issued
    /\ si' = si + 1
    /\ num' = IF MentionsNum(Statics[si]) THEN num + 1 ELSE num
    /\ ns' = IF ResetOnSkip THEN g0 ELSE ns
    /\ UNCHANGED <<tp, cf, g0, alt, issued, passes, phase, last, nreq, cur, pre, hist>>

StaticIssue ==
    /\ phase = "static" /\ si <= Len(Statics)
    /\ AllBound(Statics[si], ns)
    /\ LET name == MachName(Statics[si], ns, num) IN
         /\ name \notin issued
         /\ issued' = issued \cup {name}
         /\ Finish(name)
    /\ si' = si + 1
    /\ num' = IF MentionsNum(Statics[si]) THEN num + 1 ELSE num
    /\ ns' = g0
    /\ phase' = "idle"
    /\ UNCHANGED <<tp, cf, g0, alt, passes, nreq, cur, pre>>

(* statics exhausted inside a request: fall into the wildcard loop (passes = 0; passes += 1) *)
StaticExhausted ==
    /\ phase = "static" /\ si > Len(Statics)
    /\ phase' = "wild" /\ alt' = 1 /\ passes' = passes + 1
    /\ UNCHANGED <<g0, tp, cf, si, num, issued, ns, last, nreq, cur, pre, hist>>

(* ---- wildcard stage: "while 1: passes += 1; for item in wildcard" ---- *)
AltUnbound ==
    /\ phase = "wild" /\ alt <= Len(Wild)
    /\ ~AllBound(Wild[alt], ns)
    /\ alt' = alt + 1
    /\ UNCHANGED <<tp, cf, si, num, issued, ns, g0, passes, phase, last, nreq, cur, pre, hist>>

AltTaken ==
    /\ phase = "wild" /\ alt <= Len(Wild)
    /\ AllBound(Wild[alt], ns)
    /\ MachName(Wild[alt], ns, num) \in issued
    /\ alt' = alt + 1
    /\ num' = IF MentionsNum(Wild[alt]) THEN num + 1 ELSE num
    /\ ns' = IF ResetOnSkip THEN g0 ELSE ns
    /\ UNCHANGED <<tp, cf, g0, si, issued, passes, phase, last, nreq, cur, pre, hist>>

AltIssue ==
    /\ phase = "wild" /\ alt <= Len(Wild)
    /\ AllBound(Wild[alt], ns)
    /\ LET name == MachName(Wild[alt], ns, num) IN
         /\ name \notin issued
         /\ issued' = issued \cup {name}
         /\ Finish(name)
    /\ num' = IF MentionsNum(Wild[alt]) THEN num + 1 ELSE num
    /\ ns' = g0
    /\ phase' = "idle"
    /\ UNCHANGED <<tp, cf, g0, si, alt, passes, nreq, cur, pre>>

(* the for-else clause: every alternative failed in this pass *)
PassExhausted ==
    /\ phase = "wild" /\ alt > Len(Wild)
    /\ passes <= MaxPasses
    /\ passes' = passes + 1 /\ alt' = 1
    /\ UNCHANGED <<g0, tp, cf, si, num, issued, ns, phase, last, nreq, cur, pre, hist>>

GiveUp ==
    /\ phase = "wild" /\ alt > Len(Wild)
    /\ passes > MaxPasses
    /\ phase' = "dead"
    /\ Finish(ErrorResult)
    /\ UNCHANGED <<tp, cf, si, alt, num, issued, ns, g0, passes, nreq, cur, pre>>

(* Named deviation: after ValueError the Python generator is finished and every further
   call returns None (Filenames.__next__ falls off its for loop). *)
RequestAfterError(b) ==
    /\ phase = "dead" /\ nreq < MaxReq
    /\ nreq' = nreq + 1
    /\ hist' = Append(hist, [b |-> b, r |-> NoneResult])
    /\ last' = NoneResult
    /\ UNCHANGED <<tp, cf, si, alt, num, issued, ns, g0, passes, phase, cur, pre>>

Next == \/ \E b \in Bindings : Request(b) \/ RequestAfterError(b)
        \/ StaticSkipUnbound \/ StaticSkipTaken \/ StaticIssue \/ StaticExhausted
        \/ AltUnbound \/ AltTaken \/ AltIssue \/ PassExhausted \/ GiveUp

Spec == Init /\ [][Next]_vars /\ WF_vars(StaticSkipUnbound \/ StaticSkipTaken \/ StaticIssue
            \/ StaticExhausted \/ AltUnbound \/ AltTaken \/ AltIssue \/ PassExhausted \/ GiveUp)

-----------------------------------------------------------------------------
(* Properties *)

TypeOK == /\ si \in 1..(Len(Statics) + 1) /\ alt \in 1..(Len(Wild) + 1)
          /\ phase \in {"idle", "static", "wild", "dead"}
          /\ Reserved \subseteq issued

(* No name is ever issued twice or equal to a reserved name: stated on the step *)
NeverTwice == [][(last' # last /\ last' \notin {ErrorResult, NoneResult}) =>
                    (last' \notin issued /\ last' \in issued')]_vars

(* Issued names contain no forbidden character that came from a variable value.  Because
   template literals may legitimately contain such characters (".html"), cleanliness is
   stated for names of templates whose literals are clean. *)
SeqRange(q) == {q[j] : j \in 1..Len(q)}
AltLitChars(a) == UNION {SeqRange(a[i].s) : i \in {j \in 1..Len(a) : a[j].k = "lit"}}
LitChars == UNION ({AltLitChars(Statics[x]) : x \in 1..Len(Statics)} \cup {AltLitChars(Wild[x]) : x \in 1..Len(Wild)})
ExtChars == {Ext[j] : j \in 1..Len(Ext)}
ReplChars == {Repl[j] : j \in 1..Len(Repl)}
Clean == (phase = "idle" /\ last \notin {ErrorResult, NoneResult}) =>
            \A i \in 1..Len(last) : last[i] \in Bad => last[i] \in (LitChars \cup ExtChars \cup ReplChars)

ExtensionAdded == (phase = "idle" /\ last \notin {ErrorResult, NoneResult}) =>
                     (HasExt(last) \/ Ext = <<>> \/ ~HasExt(last \o Ext))

(* Machine refines the rule layer: every completed request returned what the documented
   contract computes from the abstract state at the start of the request. *)
RuleResult ==
    LET s == RuleStatic(Statics, pre.si, cur, pre.num, pre.issued, Bad, Repl, Ext) IN
    IF s.found THEN s.res
    ELSE RuleWild(Wild, cur, s.num, pre.issued, Bad, Repl, Ext, MaxPasses + 1).res

RefinesRule == (phase \in {"idle", "dead"} /\ nreq > 0 /\ last # NoneResult) => last = RuleResult

(* $num advances by exactly one on a step that issues or skips a numbered candidate, and
   never otherwise *)
NumSuccessive == [][num' = num \/ (num' = num + 1 /\ (phase = "static" \/ phase = "wild"))]_vars

(* the variant of the wildcard loop: every request terminates *)
Terminates == [](phase \in {"static", "wild"} => <>(phase \in {"idle", "dead"}))

(* behaviour export *)
Done == phase \in {"idle", "dead"} /\ nreq = MaxReq
Emit == Done => PrintT(<<"BEH", ToJson([t |-> tp.id, c |-> cf.id, h |-> hist])>>)

=============================================================================

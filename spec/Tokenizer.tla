------------------------------ MODULE Tokenizer ------------------------------
(***************************************************************************)
(* C01 -- tokenization follows TeX's lexical rules.                        *)
(*                                                                         *)
(* Characters are symbolic names (strings); category tables are functions  *)
(* Char -> 0..15 supplied by the harness together with the ^^X decoding    *)
(* table (both computed from the real characters).  A token is             *)
(*   [cc |-> category, tx |-> Seq(Char)]    with the special texts         *)
(*   <<"PAR">> (the paragraph token), <<"ACT", c>> (active character c),   *)
(*   <<"SP">> (a space token), <<>> (the empty control sequence).          *)
(*                                                                         *)
(* Machine layer: Tokenizer.iterchars (ReadChar: push-back buffer, ^^X,    *)
(* ignored/invalid characters) and one action per branch of                *)
(* Tokenizer.__iter__, plus the environment action SetCat between tokens.  *)
(* Rule layer: Lex (TeXbook ch. 8 over the pre-decoded character list),    *)
(* with plasTeX's deliberate deviations written out by name.               *)
(***************************************************************************)
EXTENDS Naturals, Sequences, FiniteSets, TLC, Json

CONSTANTS Chars,        \* input alphabet (symbolic names)
          Tables,       \* set of [id, cat] : category tables over all characters (inputs and ^^ images)
          Decode,       \* Char -> Char : the character ^^X denotes
          AsciiLetter,  \* set of characters that are ASCII letters (encoding.stringletters())
          MaxLen,       \* inputs of length <= MaxLen are enumerated
          MaxSetCat,    \* number of mid-stream category changes
          SetCatChoices,\* set of <<char, code>> available to SetCat
          SkipByCatcode,\* TRUE: blanks are skipped after a control WORD (letters by current catcode) and after a
                        \* control space (repaired, TeX); FALSE: after any control sequence whose last character is
                        \* an ASCII letter (as built, deviation D3)
          SuperEofSafe  \* TRUE: "^^" at end of input is two superscript characters (repaired);
                        \* FALSE: the machine has no successor there (as built: TypeError, F4)

N == "N"  M == "M"  S == "S"

VARIABLES inp,      \* the whole input (chosen in Init; kept for the rule layer)
          tbl0,     \* the table in force at the start
          src,      \* unread characters of the source
          cbuf,     \* _charBuffer: pushed-back characters
          st,       \* tokenizer state
          out,      \* tokens produced so far
          prevPar,  \* the last token yielded is the paragraph token
          cat,      \* current table Char -> 0..15
          nset,     \* number of SetCat steps taken
          sets,     \* ghost: the SetCat schedule as <<number of tokens before, char, code>>
          je,       \* the generator has just yielded (or not started): the only points where the consumer runs
          done
vars == <<inp, tbl0, src, cbuf, st, out, prevPar, cat, nset, sets, je, done>>

Tok(cc, tx) == [cc |-> cc, tx |-> tx]
ParTok == Tok(0, <<"PAR">>)
SpaceTok == Tok(10, <<"SP">>)

(* ---------------- iterchars ---------------- *)
(* raw read: from the push-back buffer first, then the source; "" = end of input *)
Raw(s, b) == IF b # <<>> THEN [c |-> Head(b), s |-> s, b |-> Tail(b)]
             ELSE IF s # <<>> THEN [c |-> Head(s), s |-> Tail(s), b |-> b]
             ELSE [c |-> "", s |-> s, b |-> b]

(* next significant character with its category, or end.  Result [ok, stuck, code, c, s, b].
   stuck = the code raises here (ord('') after ^^ at end of input, as built). *)
RECURSIVE ReadChar(_, _, _)
ReadChar(s, b, ct) ==
    LET r1 == Raw(s, b) IN
    IF r1.c = "" THEN [ok |-> FALSE, stuck |-> FALSE, code |-> 0, c |-> "", s |-> r1.s, b |-> r1.b]
    ELSE IF ct[r1.c] = 7
         THEN LET r2 == Raw(r1.s, r1.b) IN
              IF r2.c # r1.c
              THEN (* single superscript: the look-ahead character (possibly "" at the end) is pushed back *)
                   [ok |-> TRUE, stuck |-> FALSE, code |-> 7, c |-> r1.c, s |-> r2.s,
                    b |-> IF r2.c = "" THEN r2.b ELSE <<r2.c>> \o r2.b]
              ELSE LET r3 == Raw(r2.s, r2.b) IN
                   IF r3.c = ""
                   THEN IF SuperEofSafe
                        THEN [ok |-> TRUE, stuck |-> FALSE, code |-> 7, c |-> r1.c, s |-> r3.s, b |-> <<r2.c>> \o r3.b]
                        ELSE [ok |-> FALSE, stuck |-> TRUE, code |-> 0, c |-> "", s |-> r3.s, b |-> r3.b]
                   ELSE LET d == Decode[r3.c] IN
                        IF ct[d] \in {9, 15} THEN ReadChar(r3.s, r3.b, ct)
                        ELSE [ok |-> TRUE, stuck |-> FALSE, code |-> ct[d], c |-> d, s |-> r3.s, b |-> r3.b]
         ELSE IF ct[r1.c] \in {9, 15} THEN ReadChar(r1.s, r1.b, ct)
         ELSE [ok |-> TRUE, stuck |-> FALSE, code |-> ct[r1.c], c |-> r1.c, s |-> r1.s, b |-> r1.b]

(* source.readline(): discard raw characters of the SOURCE through the first line feed; the push-back
   buffer is not consulted (Tokenizer.__init__ rebinds readline to the file object's) *)
RECURSIVE DropLine(_)
DropLine(s) == IF s = <<>> THEN <<>> ELSE IF Head(s) = "LF" THEN Tail(s) ELSE DropLine(Tail(s))

R == ReadChar(src, cbuf, cat)

Emit(t, newst, r) == /\ out' = Append(out, t) /\ st' = newst /\ prevPar' = (t = ParTok)
                     /\ src' = r.s /\ cbuf' = r.b /\ je' = TRUE
                     /\ UNCHANGED <<inp, tbl0, cat, nset, sets, done>>
Skip(newst, r) == /\ st' = newst /\ src' = r.s /\ cbuf' = r.b /\ je' = FALSE
                  /\ UNCHANGED <<inp, tbl0, out, prevPar, cat, nset, sets, done>>

(* ---------------- __iter__, one action per branch ---------------- *)
LetterOrOther == ~done /\ R.ok /\ R.code \in {11, 12} /\ Emit(Tok(R.code, <<R.c>>), M, R)
SpaceSkipped == ~done /\ R.ok /\ R.code = 10 /\ st \in {S, N} /\ Skip(st, R)
SpaceEmitted == ~done /\ R.ok /\ R.code = 10 /\ st = M /\ Emit(SpaceTok, S, R)
EolInS == ~done /\ R.ok /\ R.code = 5 /\ st = S /\ Skip(N, R)
EolInM == ~done /\ R.ok /\ R.code = 5 /\ st = M /\ Emit(SpaceTok, N, R)
EolInN_Par == ~done /\ R.ok /\ R.code = 5 /\ st = N /\ ~prevPar /\ Emit(ParTok, N, R)
EolInN_ParSuppressed == ~done /\ R.ok /\ R.code = 5 /\ st = N /\ prevPar /\ Skip(N, R)       \* deviation D1

(* control word: maximal run of letters (by current category); the terminating character is pushed back *)
RECURSIVE Word(_, _, _)
Word(acc, s, b) ==
    LET r == ReadChar(s, b, cat) IN
    IF r.stuck THEN [w |-> acc, s |-> r.s, b |-> r.b, stuck |-> TRUE]
    ELSE IF ~r.ok THEN [w |-> acc, s |-> r.s, b |-> r.b, stuck |-> FALSE]
    ELSE IF r.code = 11 THEN Word(Append(acc, r.c), r.s, r.b)
    ELSE [w |-> acc, s |-> r.s, b |-> <<r.c>> \o r.b, stuck |-> FALSE]

R2 == ReadChar(R.s, R.b, cat)

SkipAfter(name, lastIsLetterCat, isCtrlSpace) ==
    IF SkipByCatcode THEN lastIsLetterCat \/ isCtrlSpace
    ELSE name # <<>> /\ name[Len(name)] \in AsciiLetter

EscapeWord ==
    /\ ~done /\ R.ok /\ R.code = 0 /\ R2.ok /\ R2.code = 11
    /\ LET w == Word(<<R2.c>>, R2.s, R2.b) IN
         /\ ~w.stuck
         /\ Emit(Tok(0, w.w), IF SkipAfter(w.w, TRUE, FALSE) THEN S ELSE M, [s |-> w.s, b |-> w.b])
EscapeSymbol ==
    /\ ~done /\ R.ok /\ R.code = 0 /\ R2.ok /\ R2.code \notin {11, 5}
    /\ Emit(Tok(0, <<R2.c>>), IF SkipAfter(<<R2.c>>, FALSE, R2.code = 10) THEN S ELSE M, R2)
EscapeThenEolYieldsSpace ==                                                                   \* deviation D2
    /\ ~done /\ R.ok /\ R.code = 0 /\ R2.ok /\ R2.code = 5
    /\ Emit(SpaceTok, S, R2)
EscapeAtEnd == /\ ~done /\ R.ok /\ R.code = 0 /\ ~R2.ok /\ ~R2.stuck /\ Emit(Tok(0, <<>>), M, R2)
Comment == ~done /\ R.ok /\ R.code = 14 /\ Skip(N, [s |-> DropLine(R.s), b |-> R.b])
Active == ~done /\ R.ok /\ R.code = 13 /\ Emit(Tok(0, <<"ACT", R.c>>), M, R)
OtherCategory == ~done /\ R.ok /\ R.code \in {1, 2, 3, 4, 6, 7, 8} /\ Emit(Tok(R.code, <<R.c>>), M, R)
Finish == /\ ~done /\ ~R.ok /\ ~R.stuck /\ done' = TRUE /\ src' = R.s /\ cbuf' = R.b
          /\ UNCHANGED <<inp, tbl0, st, out, prevPar, cat, nset, sets, je>>

(* the consumer executes \catcode between two tokens *)
SetCat(c, k) ==
    /\ ~done /\ je /\ nset < MaxSetCat /\ <<c, k>> \in SetCatChoices /\ cat[c] # k
    /\ cat' = [cat EXCEPT ![c] = k] /\ nset' = nset + 1
    /\ sets' = Append(sets, <<Len(out), c, k>>)
    /\ UNCHANGED <<inp, tbl0, src, cbuf, st, out, prevPar, je, done>>

TokenStep == \/ LetterOrOther \/ SpaceSkipped \/ SpaceEmitted \/ EolInS \/ EolInM \/ EolInN_Par
             \/ EolInN_ParSuppressed \/ EscapeWord \/ EscapeSymbol \/ EscapeThenEolYieldsSpace \/ EscapeAtEnd
             \/ Comment \/ Active \/ OtherCategory \/ Finish

Next == TokenStep \/ \E ck \in SetCatChoices : SetCat(ck[1], ck[2])

RECURSIVE Strings(_)
Strings(n) == IF n = 0 THEN {<<>>} ELSE LET P == Strings(n - 1) IN P \cup {Append(p, c) : p \in {q \in P : Len(q) = n - 1}, c \in Chars}

Init == /\ inp \in Strings(MaxLen) /\ tbl0 \in Tables
        /\ src = inp /\ cbuf = <<>> /\ st = N /\ out = <<>> /\ prevPar = FALSE
        /\ cat = tbl0.cat /\ nset = 0 /\ sets = <<>> /\ je = TRUE /\ done = FALSE

Spec == Init /\ [][Next]_vars /\ WF_vars(TokenStep)

-----------------------------------------------------------------------------
(* Rule layer: TeX's lexical rules for a fixed table.                                        *)
(* Assumption on Tables (asserted by the harness): the line feed and its ^^ image are never ignored/invalid. *)
(* Pre-decoding: ^^X pairs replaced, ignored/invalid characters dropped (D6: also inside      *)
(* control-sequence names); each item remembers whether it is a raw line feed (a comment ends *)
(* at the physical end of line only).                                                         *)
RECURSIVE Pre(_, _)
Pre(s, ct) ==
    IF s = <<>> THEN <<>>
    ELSE LET c == Head(s) IN
         IF ct[c] = 7 /\ Len(s) >= 3 /\ s[2] = c
         THEN LET d == Decode[s[3]] IN
              (IF ct[d] \in {9, 15} THEN <<>> ELSE <<[c |-> d, code |-> ct[d], rawlf |-> (s[3] = "LF")]>>) \o Pre(SubSeq(s, 4, Len(s)), ct)
         ELSE (IF ct[c] \in {9, 15} THEN <<>> ELSE <<[c |-> c, code |-> ct[c], rawlf |-> (c = "LF")]>>) \o Pre(Tail(s), ct)

RECURSIVE LettersRun(_)
LettersRun(p) == IF p = <<>> \/ Head(p).code # 11 THEN <<>> ELSE <<Head(p).c>> \o LettersRun(Tail(p))
RECURSIVE AfterRawLf(_)
AfterRawLf(p) == IF p = <<>> THEN <<>> ELSE IF Head(p).rawlf THEN Tail(p) ELSE AfterRawLf(Tail(p))

RECURSIVE Lex(_, _, _)
Lex(p, state, pp) ==         \* items, state N/M/S, previous token is PAR
    IF p = <<>> THEN <<>>
    ELSE LET h == Head(p)
             rest == Tail(p)
         IN CASE h.code \in {11, 12} -> <<Tok(h.code, <<h.c>>)>> \o Lex(rest, M, FALSE)
              [] h.code = 10 -> IF state = M THEN <<SpaceTok>> \o Lex(rest, S, FALSE) ELSE Lex(rest, state, pp)
              [] h.code = 5 -> (CASE state = S -> Lex(rest, N, pp)
                                  [] state = M -> <<SpaceTok>> \o Lex(rest, N, FALSE)
                                  [] state = N -> IF pp THEN Lex(rest, N, pp)                     \* D1: paragraphs merged
                                                  ELSE <<ParTok>> \o Lex(rest, N, TRUE))
              [] h.code = 0 ->
                   (IF rest = <<>> THEN <<Tok(0, <<>>)>>                                          \* escape at end of input
                    ELSE LET n == Head(rest) IN
                         CASE n.code = 11 -> LET w == LettersRun(rest) IN
                                             <<Tok(0, w)>> \o Lex(SubSeq(rest, Len(w) + 1, Len(rest)), S, FALSE)
                           [] n.code = 5 -> <<SpaceTok>> \o Lex(Tail(rest), S, FALSE)             \* D2
                           [] n.code = 10 -> <<Tok(0, <<n.c>>)>> \o Lex(Tail(rest), S, FALSE)     \* control space
                           [] OTHER -> <<Tok(0, <<n.c>>)>> \o Lex(Tail(rest), M, FALSE))
              [] h.code = 14 -> Lex(AfterRawLf(rest), N, pp)
              [] h.code = 13 -> <<Tok(0, <<"ACT", h.c>>)>> \o Lex(rest, M, FALSE)
              [] OTHER -> <<Tok(h.code, <<h.c>>)>> \o Lex(rest, M, FALSE)

-----------------------------------------------------------------------------
(* Invariants *)
Refines == (done /\ nset = 0) => out = Lex(Pre(inp, tbl0.cat), N, FALSE)

(* every token carries the category its class denotes *)
CatOfClass == \A i \in 1..Len(out) :
    LET t == out[i] IN
      /\ (t.tx = <<"SP">> <=> t.cc = 10)
      /\ (t.tx = <<"PAR">> => t.cc = 0)
      /\ (Len(t.tx) = 2 /\ t.tx[1] = "ACT" => t.cc = 0)
      /\ t.cc \notin {5, 9, 13, 14, 15}

NoTwoPars == \A i \in 1..(Len(out) - 1) : ~(out[i] = ParTok /\ out[i + 1] = ParTok)

Terminates == <>done

(* never stuck: in every reachable unfinished state some token step is enabled *)
NeverStuck == ~done => ENABLED TokenStep

EmitDone == done => PrintT(<<"BEH", ToJson([inp |-> inp, t |-> tbl0.id, sets |-> sets, out |-> out, st |-> st])>>)
=============================================================================

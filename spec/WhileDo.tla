------------------------------- MODULE WhileDo -------------------------------
(***************************************************************************)
(* C19, second half: \whiledo{test}{body} repeats its body exactly as many *)
(* times as the test stays true.  The body steps a counter c; the test is  *)
(* one of a family of expressions over c and the bound N, evaluated by the *)
(* IfThen rule layer's denotation.  Machine: whiledo.invoke's loop (expand *)
(* the test, evaluate, break or append the expansion of the body).         *)
(***************************************************************************)
EXTENDS Naturals, Sequences, TLC, Json

CONSTANTS MaxN, Kinds,
          Bodies   \* what else the body contains besides stepping the counter: nothing, an \ifthenelse, a nested
                   \* parenthesised \whiledo -- none of which may change how often the outer test is evaluated

(* the test as a function of the counter value c and the bound n *)
TestVal(kind, c, n) ==
    CASE kind = "lt" -> c < n                               \* \value{c} < n
      [] kind = "notgt" -> ~(c > n - 1) /\ TRUE             \* \not\(\value{c} > n-1\) \and \equal{a}{a}   (n >= 1)
      [] kind = "or" -> (c < n) \/ FALSE                    \* \value{c} < n \or \equal{a}{b}
      [] kind = "andnot" -> (c < n) /\ ~(c = n)             \* \value{c} < n \and \not \value{c} = n
      [] kind = "false" -> FALSE                            \* \equal{a}{b}: zero iterations

VARIABLES kind, body, n, c, out, pc
vars == <<kind, body, n, c, out, pc>>

Init == kind \in Kinds /\ body \in Bodies /\ n \in 0..MaxN /\ (kind = "notgt" => n >= 1) /\ c = 0 /\ out = 0 /\ pc = "test"

Test == /\ pc = "test"
        /\ pc' = IF TestVal(kind, c, n) THEN "body" ELSE "done"
        /\ UNCHANGED <<kind, body, n, c, out>>
Body == /\ pc = "body" /\ out' = out + 1 /\ c' = c + 1 /\ pc' = "test" /\ UNCHANGED <<kind, body, n>>
Next == Test \/ Body
Spec == Init /\ [][Next]_vars /\ WF_vars(Next)

(* number of iterations the rule prescribes: the least c at which the test is false *)
RECURSIVE Least(_, _, _)
Least(k, m, i) == IF i > MaxN + 1 \/ ~TestVal(k, i, m) THEN i ELSE Least(k, m, i + 1)
LoopCount == pc = "done" => out = Least(kind, n, 0)
Terminates == <>(pc = "done")
Emit == pc = "done" => PrintT(<<"BEH", ToJson([kind |-> kind, body |-> body, n |-> n, iterations |-> out])>>)
=============================================================================

------------------------------ MODULE PauxTrace ------------------------------
(***************************************************************************)
(* Trace validation for C20.  Each trace is a short history on the real    *)
(* Context.persist/restore with real file contents; the harness classifies *)
(* the bytes it wrote (by an independent unpickling) into the abstract     *)
(* file states of Paux.tla and logs what restore returned / what the file  *)
(* is after save.  TRACE_FILE: ndjson {"ev":[{"op":..,"r":..,"m":{..},     *)
(*  "l":..,"file":{"k":..,"d":{..}},"res":{..},"failed":bool}, ...]}       *)
(***************************************************************************)
EXTENDS Paux, IOUtils, TLCExt

VARIABLES tid, l
Traces == ndJsonDeserialize(IOEnv.TRACE_FILE)
Ev == Traces[tid].ev

TraceInit == tid \in 1..Len(Traces) /\ l = 1 /\ Init

(* "setfile": the harness put bytes on disk whose class it determined itself *)
SetFile(f) == /\ ~failed /\ file' = f /\ UNCHANGED <<restored, failed>> /\ Log(Op("setfile", "", Empty, ""))

Act(e) ==
    CASE e.op = "save" -> Save(e.r, e.m)
      [] e.op = "restore" -> Restore(e.r, e.res)
      [] e.op = "delete" -> Delete
      [] e.op = "setfile" -> SetFile(e.file)
      [] OTHER -> FALSE

TraceNext ==
    /\ l <= Len(Ev)
    /\ Act(Ev[l])
    /\ file' = Ev[l].file /\ restored' = Ev[l].res /\ failed' = Ev[l].failed
    /\ l' = l + 1 /\ UNCHANGED tid

ASSUME \A t \in 1..Len(Traces) : TLCSet(t, 1)
Progress == IF l > TLCGet(tid) THEN TLCSet(tid, l) ELSE TRUE
Rejected == {t \in 1..Len(Traces) : TLCGet(t) # Len(Traces[t].ev) + 1}
TraceAccepted == PrintT(<<"REJ", ToJson([x \in Rejected |-> TLCGet(x)])>>)
=============================================================================

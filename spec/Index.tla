--------------------------------- MODULE Index ---------------------------------
(***************************************************************************)
(* C18 -- the index lists every entry exactly once, under its key, in      *)
(* collation order.                                                        *)
(*                                                                         *)
(* An entry is [path, fmt, site]: path = Seq of key names (1-3 levels),    *)
(* fmt = "none" | "see" | "textbf", site = position in the document.  A    *)
(* key has a sort string and a display string (sort@display); Rank maps    *)
(* the sort string to its collation rank and Initial to its heading --     *)
(* both are supplied by the harness from the collation the installed       *)
(* plasTeX actually selects, so the specification is checked for THAT      *)
(* collation.                                                              *)
(* Machine layer: IndexEntry.__lt__ (per-level (rank(sort), rank(display)) *)
(* tuples, shorter path first on ties) with a stable sort, the prefix-     *)
(* merge loop of IndexUtils.digest, the heading loop of IndexUtils.groups  *)
(* and splitColumns transcribed branch for branch.                         *)
(* Rule layer: the index is the tree GroupBy(path) of the multiset of      *)
(* entries, one page per occurrence in document order.                     *)
(***************************************************************************)
EXTENDS Naturals, Integers, Sequences, FiniteSets, TLC, Json

CONSTANTS Keys,        \* key name -> [sort, disp]
          Rank,        \* string -> Nat  (collation rank; equal strings have equal rank)
          Tie,         \* display string -> Nat: the order of the display forms AS WRITTEN (markup included), distinct for distinct forms
          TotalOrder,  \* TRUE: entries whose sort and display text collate equal are ordered by the written form (repaired);
                       \* FALSE: they compare as "neither is less" and keep document order (as built, F41)
          Initial,     \* sort string -> heading title
          Paths,       \* set of paths entries may use
          MaxEntries,
          Cols,
          Fmts         \* subset of {"none", "see", "textbf"}

VARIABLES entries,     \* the \index commands in document order
          done
vars == <<entries, done>>

Init == entries = <<>> /\ done = FALSE
AddEntry == /\ ~done /\ Len(entries) < MaxEntries
            /\ \E p \in Paths, f \in Fmts : entries' = Append(entries, [path |-> p, fmt |-> f, site |-> Len(entries) + 1])
            /\ UNCHANGED done
Close == ~done /\ entries # <<>> /\ done' = TRUE /\ UNCHANGED entries
Next == AddEntry \/ Close
Spec == Init /\ [][Next]_vars

(* ---------------- IndexEntry.__lt__ ---------------- *)
LevelKey(e, i) == <<Rank[Keys[e.path[i]].sort], Rank[Keys[e.path[i]].disp]>>
Min(a, b) == IF a < b THEN a ELSE b
RECURSIVE CmpFrom(_, _, _)
(* lexicographic comparison of the per-level key lists: -1, 0, 1 ; a proper prefix is smaller *)
CmpFrom(a, b, i) ==
    IF i > Len(a.path) /\ i > Len(b.path) THEN 0
    ELSE IF i > Len(a.path) THEN 0 - 1
    ELSE IF i > Len(b.path) THEN 1
    ELSE LET ka == LevelKey(a, i)
             kb == LevelKey(b, i)
             ta == Tie[Keys[a.path[i]].disp]
             tb == Tie[Keys[b.path[i]].disp]
         IN IF ka[1] < kb[1] \/ (ka[1] = kb[1] /\ ka[2] < kb[2]) THEN 0 - 1
            ELSE IF ka = kb THEN (IF TotalOrder /\ ta < tb THEN 0 - 1 ELSE IF TotalOrder /\ ta > tb THEN 1 ELSE CmpFrom(a, b, i + 1))
            ELSE 1
Lt(a, b) == CmpFrom(a, b, 1) = 0 - 1

(* stable insertion sort, as sorted() *)
RECURSIVE InsertSorted(_, _)
InsertSorted(s, e) == IF s = <<>> THEN <<e>>
                      ELSE IF Lt(e, Head(s)) THEN <<e>> \o s
                      ELSE <<Head(s)>> \o InsertSorted(Tail(s), e)
RECURSIVE SortAll(_)
SortAll(s) == IF s = <<>> THEN <<>> ELSE InsertSorted(SortAll(SubSeq(s, 1, Len(s) - 1)), s[Len(s)])
Sorted == SortAll(entries)

(* ---------------- the prefix-merge loop ---------------- *)
(* per-level identity of a key as the loop compares it: (sortkey, key) pairs *)
SameLevel(a, b, i) == Keys[a.path[i]] = Keys[b.path[i]]
RECURSIVE Common(_, _, _)
Common(a, b, i) == IF i > Len(a.path) \/ i > Len(b.path) \/ ~SameLevel(a, b, i) THEN i - 1 ELSE Common(a, b, i + 1)

(* the tree as a sequence of nodes in creation order: [path (Seq of [sort, disp]), pages (Seq of [site, fmt])] *)
KeyPath(e, n) == [i \in 1..n |-> Keys[e.path[i]]]
RECURSIVE Merge(_, _, _, _)
(* s: remaining sorted entries ; prev: previous entry or <<>> ; cur: index (in nodes) of the current node ; nodes *)
Merge(s, prevpath, cur, nodes) ==
    IF s = <<>> THEN nodes
    ELSE LET e == Head(s)
             common == IF prevpath = <<>> THEN 0 ELSE
                       LET RECURSIVE C(_) C(i) == IF i > Len(prevpath) \/ i > Len(e.path) \/ prevpath[i] # Keys[e.path[i]] THEN i - 1 ELSE C(i + 1) IN C(1)
             (* pop out to the common level, then add the missing levels *)
             RECURSIVE AddLevels(_, _)
             AddLevels(ns, i) == IF i > Len(e.path) THEN ns ELSE AddLevels(Append(ns, [path |-> KeyPath(e, i), pages |-> <<>>]), i + 1)
             ns2 == AddLevels(nodes, common + 1)
             (* the current node is now the node of e's full path: the last node with that path *)
             target == IF common = Len(e.path)
                       THEN CHOOSE j \in 1..Len(nodes) : nodes[j].path = KeyPath(e, Len(e.path)) /\ \A m \in (j + 1)..Len(nodes) : nodes[m].path # KeyPath(e, Len(e.path))
                       ELSE Len(ns2)
             ns3 == [ns2 EXCEPT ![target].pages = Append(@, [site |-> e.site, fmt |-> e.fmt])]
         IN Merge(Tail(s), KeyPath(e, Len(e.path)), target, ns3)

Tree == Merge(Sorted, <<>>, 0, <<>>)

(* ---------------- rule layer ---------------- *)
RulePages(p) == LET idx == {i \in 1..Len(entries) : KeyPath(entries[i], Len(entries[i].path)) = p} IN
                [k \in 1..Cardinality(idx) |-> LET i == CHOOSE i \in idx : Cardinality({j \in idx : j < i}) = k - 1 IN
                                               [site |-> entries[i].site, fmt |-> entries[i].fmt]]

TreePaths == {Tree[j].path : j \in 1..Len(Tree)}

EveryEntryOnceUnderItsPath == done =>
    /\ TreePaths = UNION {{KeyPath(entries[i], n) : n \in 1..Len(entries[i].path)} : i \in 1..Len(entries)}
    /\ \A j, m \in 1..Len(Tree) : j # m => Tree[j].path # Tree[m].path                 \* same path merged into one line
    /\ \A j \in 1..Len(Tree) : Tree[j].pages = RulePages(Tree[j].path)                    \* one page per occurrence, document order

(* siblings are ordered by the collation rank of their sort key *)
SiblingsSortedByRank == done =>
    \A j, m \in 1..Len(Tree) :
        (j < m /\ Len(Tree[j].path) = Len(Tree[m].path)
         /\ SubSeq(Tree[j].path, 1, Len(Tree[j].path) - 1) = SubSeq(Tree[m].path, 1, Len(Tree[m].path) - 1))
        => Rank[Tree[j].path[Len(Tree[j].path)].sort] <= Rank[Tree[m].path[Len(Tree[m].path)].sort]

(* ---------------- headings ---------------- *)
Tops == SelectSeq(Tree, LAMBDA n : Len(n.path) = 1)
RECURSIVE GroupTitles(_, _)
GroupTitles(s, cur) == IF s = <<>> THEN <<>>
                       ELSE LET t == Initial[Head(s).path[1].sort] IN
                            IF t # cur THEN <<t>> \o GroupTitles(Tail(s), t) ELSE GroupTitles(Tail(s), cur)
Headings == GroupTitles(Tops, "")
OneGroupPerHeading == done => \A a, b \in 1..Len(Headings) : a # b => Headings[a] # Headings[b]

Emit == done => PrintT(<<"BEH", ToJson([entries |-> entries, tree |-> Tree, headings |-> Headings])>>)
=============================================================================

------------------------------- MODULE Isolation -------------------------------
(***************************************************************************)
(* C17 -- a document's result does not depend on what was processed        *)
(* before it, and after a document no interpreter-wide parsing state       *)
(* differs from its initial value.                                         *)
(*                                                                         *)
(* Interpreter-wide state W (everything that lives on classes shared by    *)
(* all documents):                                                         *)
(*   plevel  ParameterCommand._enablelevel (assignments run iff >= 0)      *)
(*   math    length of MathShift.inEnv                                     *)
(*   list    List.depth                                                    *)
(*   dmath   BeginMath.disableMath                                         *)
(*   regs    value held by the class of each built-in parameter            *)
(*   idx     level of the printindex / theindex / bibliography classes     *)
(* Document-local state L (owned by TeXDocument / Context): per-document   *)
(* parameter classes and per-document index classes -- present only in the *)
(* repaired variants.                                                      *)
(*                                                                         *)
(* A document is [cls, feats, ending]; each feature is an action shaped    *)
(* like the code path it stands for (one per relevant return path of       *)
(* readArgumentAndSource, MathShift.invoke, List.invoke, article's         *)
(* ProcessOptions, ParameterCommand.invoke), and the ending says how the   *)
(* input stops: normally, inside $...$, inside a list, by an exception     *)
(* while an argument is being read, by an exception elsewhere.             *)
(* Variant constants select the as-built or the repaired code:             *)
(*   AnyEnables     the `any` argument type re-enables parameters          *)
(*   ParseRestores  TeX.parse restores plevel/math/list/dmath on exit      *)
(*   ClassPerDoc    article patches per-document classes                   *)
(*   RegsPerDoc     parameter classes are per document                     *)
(***************************************************************************)
EXTENDS Naturals, Integers, Sequences, FiniteSets, TLC, Json

CONSTANTS MaxFeats,         \* features per document
          MaxDocs,          \* documents per history (the last one is the observed one)
          AnyEnables, ParseRestores, ClassPerDoc, RegsPerDoc

Regs == {"parindent", "tolerance", "LTleft"}        \* two built-in parameters and one register defined by a package (longtable)
Feats == {"assign_parindent", "assign_tolerance", "assign_LTleft", "use_parindent", "use_tolerance", "use_LTleft", "any", "math", "pmath", "list",
          "listinput", "mathinput", "section", "printindex", "eqstar", "eqarr", "defcolor", "usecolor"}
Endings == {"end", "mathopen", "listopen", "boom", "ifraise"}
Classes == {"article", "book"}

InitW == [plevel |-> 0, math |-> 0, list |-> 0, dmath |-> FALSE, regs |-> [r \in Regs |-> "init"], idx |-> "chapter"]
InitL == [regs |-> [r \in Regs |-> "none"], idx |-> "none", secfmt |-> "chaptered", color |-> "init"]

RegOf(f) == IF f \in {"assign_parindent", "use_parindent"} THEN "parindent" ELSE IF f \in {"assign_LTleft", "use_LTleft"} THEN "LTleft" ELSE "tolerance"

(* one feature: [w, l, obs] -> [w, l, obs] *)
Step(f, s) ==
    LET w == s.w
        l == s.l
    IN CASE f \in {"assign_parindent", "assign_tolerance", "assign_LTleft"} ->
              (* ParameterCommand.invoke: runs only while parameters are enabled; the value goes on the class *)
              IF w.plevel >= 0
              THEN IF RegsPerDoc THEN [s EXCEPT !.l.regs[RegOf(f)] = "v1", !.obs = Append(@, "assigned")]
                                 ELSE [s EXCEPT !.w.regs[RegOf(f)] = "v1", !.obs = Append(@, "assigned")]
              ELSE [s EXCEPT !.obs = Append(@, "notassigned")]
         [] f \in {"use_parindent", "use_tolerance", "use_LTleft"} ->
              [s EXCEPT !.obs = Append(@, IF l.regs[RegOf(f)] # "none" THEN l.regs[RegOf(f)] ELSE w.regs[RegOf(f)])]
         [] f = "any" ->        \* readArgumentAndSource(type = any): disable on entry, enable on return only if repaired
              [s EXCEPT !.w.plevel = @ - 1 + (IF AnyEnables THEN 1 ELSE 0)]
         [] f = "math" ->       \* $x$ : with a stale open math on the stack the first $ is taken for its end
              [s EXCEPT !.obs = Append(@, IF w.math = 0 THEN "math" ELSE "text")]
         [] f = "pmath" ->      \* \(x\)
              [s EXCEPT !.obs = Append(@, IF w.dmath THEN "text" ELSE "math")]
         [] f = "list" ->       \* a balanced list: depth +1 -1
              [s EXCEPT !.obs = Append(@, "list")]
         [] f = "listinput" ->  \* a list that \input's a file between \begin and \end: still balanced
              [s EXCEPT !.obs = Append(@, "list")]
         [] f = "mathinput" ->  \* $ .. \input{file} .. $
              [s EXCEPT !.obs = Append(@, IF w.math = 0 THEN "math" ELSE "text")]
         [] f = "section" ->    \* the number of a section: the counter classes are made per document by the document class
              [s EXCEPT !.obs = Append(@, l.secfmt)]
         [] f = "eqstar" ->     \* an unnumbered eqnarray*: nothing to observe, but it is the parent class of eqnarray
              s
         [] f = "eqarr" ->      \* eqnarray with two labelled rows: both rows carry a number
              [s EXCEPT !.obs = Append(@, "rows2")]
         [] f = "defcolor" ->   \* \definecolor{red}: the colour table belongs to the document (userdata)
              [s EXCEPT !.l.color = "v1"]
         [] f = "usecolor" ->   \* \textcolor{red}
              [s EXCEPT !.obs = Append(@, l.color)]
         [] f = "printindex" -> \* the level the index is digested at
              [s EXCEPT !.obs = Append(@, IF l.idx # "none" THEN l.idx ELSE w.idx)]

RECURSIVE Run(_, _)
Run(fs, s) == IF fs = <<>> THEN s ELSE Run(Tail(fs), Step(Head(fs), s))

(* \documentclass: article patches the index classes; book leaves them alone *)
Header(cls, s) == IF cls = "article"
                  THEN IF ClassPerDoc THEN [s EXCEPT !.l.idx = "section", !.l.secfmt = "flat"] ELSE [s EXCEPT !.w.idx = "section", !.l.secfmt = "flat"]
                  ELSE s

Finish(e, s) == CASE e = "end" -> s
                  [] e = "mathopen" -> [s EXCEPT !.w.math = @ + 1]          \* input ends inside $...
                  [] e = "listopen" -> [s EXCEPT !.w.list = @ + 1]          \* input ends inside a list
                  [] e = "boom" -> [s EXCEPT !.w.plevel = @ - 2]            \* exception inside readDimen inside readArgumentAndSource
                  [] e = "ifraise" -> s                                     \* exception after the argument was read

(* TeX.parse: the class-level switches are saved on entry and restored in a finally clause (repaired) *)
Process(d, w0) ==
    LET s == Finish(d.ending, Run(d.feats, Header(d.cls, [w |-> w0, l |-> InitL, obs |-> <<>>])))
        w1 == IF ParseRestores THEN [s.w EXCEPT !.plevel = w0.plevel, !.math = w0.math, !.list = w0.list, !.dmath = w0.dmath] ELSE s.w
    IN [w |-> w1, obs |-> s.obs]

RECURSIVE SeqsUpTo(_, _)
SeqsUpTo(S, n) == IF n = 0 THEN {<<>>} ELSE LET P == SeqsUpTo(S, n - 1) IN P \cup {Append(p, x) : p \in P, x \in S}
Docs == [cls : Classes, feats : SeqsUpTo(Feats, MaxFeats), ending : Endings]

VARIABLES w, hist, lastobs
vars == <<w, hist, lastobs>>
Init == w = InitW /\ hist = <<>> /\ lastobs = <<>>
ProcessDoc == /\ Len(hist) < MaxDocs
              /\ \E d \in Docs : LET r == Process(d, w) IN w' = r.w /\ lastobs' = r.obs /\ hist' = Append(hist, d)
Next == ProcessDoc
Spec == Init /\ [][Next]_vars

(* after every document the interpreter-wide state is the initial one *)
CleanAfterDocument == w = InitW
(* whatever was processed before, every document gives what it gives in a fresh interpreter *)
ResultIndependent == hist # <<>> => lastobs = Process(hist[Len(hist)], InitW).obs
(* the argument-scanning switch is balanced inside a document too: an assignment is never skipped *)
AssignmentsRun == \A k \in 1..Len(lastobs) : lastobs[k] # "notassigned"
Emit == hist # <<>> => PrintT(<<"BEH", ToJson([hist |-> hist, obs |-> lastobs, w |-> w])>>)
=============================================================================

------------------------------ MODULE DomTrace ------------------------------
(***************************************************************************)
(* Trace validation for C06.  TRACE_FILE: ndjson, one trace per line:      *)
(*   {"ev": [{"op":..,"r":..,"x":..,"i":..,"y":..,                         *)
(*            "post":{"kids":{..},"parent":{..},"txt":{..}}}, ...]}        *)
(* recorded from random edit sequences on the real plasTeX.DOM.  Each      *)
(* event must be an enabled action of Dom.tla producing exactly the logged *)
(* state; all invariants of Dom.tla are evaluated at every step.           *)
(***************************************************************************)
EXTENDS Dom, IOUtils, TLCExt

VARIABLES tid, l

Traces == ndJsonDeserialize(IOEnv.TRACE_FILE)
Ev == Traces[tid].ev

TraceInit == tid \in 1..Len(Traces) /\ l = 1 /\ Init

Act(e) ==
    CASE e.op = "append" -> DoAppend(e.r, e.x)
      [] e.op = "insert" -> DoInsert(e.r, e.i, e.x)
      [] e.op = "insertBefore" -> DoInsertBefore(e.r, e.x, e.y)
      [] e.op = "insertAfter" -> DoInsertAfter(e.r, e.x, e.y)
      [] e.op = "replaceChild" -> DoReplaceChild(e.r, e.x, e.y)
      [] e.op = "removeChild" -> DoRemoveChild(e.r, e.x)
      [] e.op = "pop" -> DoPop(e.r, e.i)
      [] e.op = "setitem" -> DoSetItem(e.r, e.i, e.x)
      [] e.op = "extend" -> DoExtend(e.r, e.x, e.y)
      [] e.op = "normalize" -> DoNormalize(e.r)
      [] e.op = "cloneDeep" -> DoClone(e.r, TRUE)
      [] e.op = "cloneShallow" -> DoClone(e.r, FALSE)
      [] e.op = "removeChildNotFound" -> DoRemoveNotFound(e.r, e.x)
      [] e.op = "insertBeforeNotFound" -> DoInsertBeforeNotFound(e.r, e.x, e.y)
      [] e.op = "popEmpty" -> DoPopEmpty(e.r)
      [] OTHER -> FALSE

TraceNext ==
    /\ l <= Len(Ev)
    /\ Act(Ev[l])
    /\ Proj(kids', parent', txt', used') = Ev[l].post
    /\ l' = l + 1 /\ UNCHANGED tid

ASSUME \A t \in 1..Len(Traces) : TLCSet(t, 1)
Progress == IF l > TLCGet(tid) THEN TLCSet(tid, l) ELSE TRUE
Rejected == {t \in 1..Len(Traces) : TLCGet(t) # Len(Traces[t].ev) + 1}
TraceAccepted == PrintT(<<"REJ", ToJson([x \in Rejected |-> TLCGet(x)])>>)
=============================================================================

------------------------------- MODULE Numbers -------------------------------
(***************************************************************************)
(* C05, second half: integers, dimensions and glue denote the same value   *)
(* as in TeX.                                                              *)
(*                                                                         *)
(* Rule layer only (the scanners are pure functions of the token list):    *)
(* the grammar of TeX numerals (TeXbook ch. 24: optional signs, decimal /   *)
(* octal / hexadecimal / character-code / internal-register integers;      *)
(* decimal constants with '.' or ',' and leading-point / trailing-point    *)
(* forms; optional blanks, optional 'true', the eleven units in any case,  *)
(* register multiples; glue with plus/minus and the three fil orders) and  *)
(* its DENOTATION.  TLC enumerates every literal of the bounded grammar    *)
(* together with what follows it and prints literal + denotation; the      *)
(* harness feeds each to the real scanner.  Values are exact rationals     *)
(* [sign, num, den] x unit; products that exceed 32 bits are formed by the *)
(* harness from the unit table of this module.                             *)
(***************************************************************************)
EXTENDS Naturals, Sequences, FiniteSets, TLC, Json

CONSTANTS Kind         \* "int" | "dimen" | "glue"

(* what follows the literal *)
Followers == {<<>>, <<"x">>, <<"\\relax", "x">>, <<" ", "x">>, <<"}", "x">>}

(* scaled points per unit as <<numerator, denominator>> (TeXbook p. 57); ex and em are
   implementation-defined in plasTeX (5pt and 11pt) *)
UnitSp == [pt |-> <<65536, 1>>, pc |-> <<786432, 1>>, in |-> <<473628672, 100>>, bp |-> <<473628672, 7200>>,
           cm |-> <<473628672, 254>>, mm |-> <<473628672, 2540>>, dd |-> <<81133568, 1157>>, cc |-> <<973602816, 1157>>,
           sp |-> <<1, 1>>, ex |-> <<327680, 1>>, em |-> <<720896, 1>>]
Units == DOMAIN UnitSp

SignRuns == {<<>>, <<"+">>, <<"-">>, <<"-", "-">>, <<"-", " ", "+", "-">>, <<"+", " ", "-">>, <<" ", "-">>}
SignOf(r) == IF Cardinality({i \in 1..Len(r) : r[i] = "-"}) % 2 = 1 THEN 0 - 1 ELSE 1 - 0

(* integer constants: text and value *)
IntForms == {[t |-> <<"0">>, v |-> 0], [t |-> <<"7">>, v |-> 7], [t |-> <<"1", "2">>, v |-> 12], [t |-> <<"1", "2", "3">>, v |-> 123],
             [t |-> <<"0", "7">>, v |-> 7],
             [t |-> <<"'", "1", "7">>, v |-> 15], [t |-> <<"'", "0">>, v |-> 0], [t |-> <<"'", "7", "7", "7">>, v |-> 511],
             [t |-> <<"\"", "1", "F">>, v |-> 31], [t |-> <<"\"", "A">>, v |-> 10], [t |-> <<"\"", "F", "F">>, v |-> 255],
             [t |-> <<"`", "a">>, v |-> 97], [t |-> <<"`", "A">>, v |-> 65], [t |-> <<"`", "\\%">>, v |-> 37], [t |-> <<"`", "\\a">>, v |-> 97],
             [t |-> <<"\\vcnt">>, v |-> 5]}            \* an internal count register holding 5

(* decimal constants: text and value as num/den *)
DecForms == {[t |-> <<"1">>, num |-> 1, den |-> 1], [t |-> <<"1", "2">>, num |-> 12, den |-> 1], [t |-> <<"0">>, num |-> 0, den |-> 1],
             [t |-> <<"1", ".", "5">>, num |-> 15, den |-> 10], [t |-> <<"1", ",", "5">>, num |-> 15, den |-> 10],
             [t |-> <<".", "5">>, num |-> 5, den |-> 10], [t |-> <<",", "2", "5">>, num |-> 25, den |-> 100],
             [t |-> <<"2", ".">>, num |-> 2, den |-> 1], [t |-> <<"0", ".", "2", "5">>, num |-> 25, den |-> 100],
             [t |-> <<"1", "0", ".", "0">>, num |-> 10, den |-> 1]}

UnitSpellings == {[t |-> <<"p", "t">>, u |-> "pt"], [t |-> <<"p", "c">>, u |-> "pc"], [t |-> <<"i", "n">>, u |-> "in"],
                  [t |-> <<"b", "p">>, u |-> "bp"], [t |-> <<"c", "m">>, u |-> "cm"], [t |-> <<"m", "m">>, u |-> "mm"],
                  [t |-> <<"d", "d">>, u |-> "dd"], [t |-> <<"c", "c">>, u |-> "cc"], [t |-> <<"s", "p">>, u |-> "sp"],
                  [t |-> <<"e", "x">>, u |-> "ex"], [t |-> <<"e", "m">>, u |-> "em"],
                  [t |-> <<"P", "T">>, u |-> "pt"], [t |-> <<"C", "m">>, u |-> "cm"]}
UnitPrefixes == {<<>>, <<" ">>, <<"t", "r", "u", "e">>, <<" ", "t", "r", "u", "e", " ">>}

(* a dimension: decimal constant x unit, or a register (3pt) possibly with a factor *)
DimenLits ==
    {[t |-> d.t \o p \o u.t, num |-> d.num, den |-> d.den, unit |-> u.u, reg |-> FALSE] : d \in DecForms, p \in UnitPrefixes, u \in UnitSpellings}
    \cup {[t |-> <<"\\vdim">>, num |-> 3, den |-> 1, unit |-> "pt", reg |-> TRUE],
          [t |-> <<"2", "\\vdim">>, num |-> 6, den |-> 1, unit |-> "pt", reg |-> TRUE],
          [t |-> <<"1", ".", "5", "\\vdim">>, num |-> 45, den |-> 10, unit |-> "pt", reg |-> TRUE]}

(* stretch / shrink components: a dimension or a fil order with a factor; order 0 = finite *)
FilForms == {[t |-> <<"1", "f", "i", "l">>, num |-> 1, den |-> 1, order |-> 1], [t |-> <<"2", "f", "i", "l", "l">>, num |-> 2, den |-> 1, order |-> 2],
             [t |-> <<"1", "f", "i", "l", "l", "l">>, num |-> 1, den |-> 1, order |-> 3], [t |-> <<"1", ".", "5", "f", "i", "l">>, num |-> 15, den |-> 10, order |-> 1],
             [t |-> <<"3", "F", "i", "l">>, num |-> 3, den |-> 1, order |-> 1],
             [t |-> <<"2", "p", "t">>, num |-> 2, den |-> 1, order |-> 0]}
NoComp == [t |-> <<>>, num |-> 0, den |-> 1, order |-> 0 - 1]      \* order -1: component absent

VARIABLES lit, follow, emitted
vars == <<lit, follow, emitted>>

Lits ==
    CASE Kind = "int" -> {[k |-> "int", t |-> s \o f.t \o sp, sign |-> SignOf(s), v |-> f.v] : s \in SignRuns, f \in IntForms, sp \in {<<>>, <<" ">>}}
      [] Kind = "dimen" -> {[k |-> "dimen", t |-> s \o d.t, sign |-> SignOf(s), num |-> d.num, den |-> d.den, unit |-> d.unit]
                              : s \in {<<>>, <<"-">>, <<"+", "-", "-">>}, d \in DimenLits}
      [] Kind = "glue" -> {[k |-> "glue", t |-> s \o b.t \o st.pre \o st.c.t \o sh.pre \o sh.c.t, sign |-> SignOf(s),
                            num |-> b.num, den |-> b.den, unit |-> b.unit, stretch |-> st.c, shrink |-> sh.c]
                             : s \in {<<>>, <<"-">>},
                               b \in {d \in DimenLits : d.t \in {<<"1", "p", "t">>, <<"1", ".", "5", " ", "c", "m">>, <<"\\vdim">>}},
                               st \in {[pre |-> <<>>, c |-> NoComp]} \cup {[pre |-> <<" ", "p", "l", "u", "s", " ">>, c |-> c] : c \in FilForms},
                               sh \in {[pre |-> <<>>, c |-> NoComp]} \cup {[pre |-> <<" ", "m", "i", "n", "u", "s">>, c |-> c] : c \in FilForms}}

Init == lit \in Lits /\ follow \in Followers /\ emitted = FALSE
Next == ~emitted /\ emitted' = TRUE /\ UNCHANGED <<lit, follow>>
Spec == Init /\ [][Next]_vars

(* sanity of the rule layer itself *)
UnitsKnown == (lit.k # "int") => lit.unit \in Units
Emit == emitted => PrintT(<<"BEH", ToJson([lit |-> lit, follow |-> follow, units |-> UnitSp])>>)
=============================================================================

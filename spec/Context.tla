------------------------------- MODULE Context -------------------------------
(***************************************************************************)
(* C04 -- grouping restores every local change; the context stack stays    *)
(* balanced.                                                               *)
(*                                                                         *)
(* Machine layer: plasTeX.Context as a stack of frames.  Catcode tables    *)
(* live in a heap and frames hold POINTERS, so the sharing of a table      *)
(* between a frame and its children (createContext) and the copy made by   *)
(* catcode() are explicit steps.  One action per public method, with the   *)
(* code's exact popping rules.                                             *)
(* Rule layer: the ghost variable rb (one binding table per frame, a new   *)
(* binding of a name replaces the older one in its frame) and the ghost    *)
(* snapshots taken when a frame is pushed.                                 *)
(***************************************************************************)
EXTENDS Naturals, Sequences, FiniteSets, TLC, Json

CONSTANTS Names,       \* macro names
          Vals,        \* identities of definitions
          Chars,       \* characters whose category can change
          Codes,       \* category codes used by SetCat
          Objs,        \* macro objects: [id, ty, mode, par, name, doc, locals]
          DefaultCat,  \* Chars -> code
          VerbCat,     \* Chars -> code (the verbatim table)
          MaxOps,
          KeepHist,    \* TRUE: hist is the whole history (behaviour export); FALSE: only the last record
          LetScoped    \* TRUE: a character alias (\let\x=c) is shadowed by a later or inner
                       \* definition of the same name (repaired get_let/addLocal/addGlobal);
                       \* FALSE: aliases are looked up before all definitions (as built, F6)

NoObj == [id |-> 0, ty |-> "", mode |-> "none", par |-> 0, name |-> "{}", doc |-> FALSE, locals |-> <<>>]
Undefined == [k |-> "undef", v |-> 0, c |-> ""]
DefB(x) == [k |-> "def", v |-> x, c |-> ""]
CharB(ch) == [k |-> "char", v |-> 0, c |-> ch]

VARIABLES stack,    \* Seq of frames [obj, defs, lets, cats]; defs/lets are partial functions Name -> value
          tables,   \* heap of catcode tables: pointer -> [Chars -> code]
          cur,      \* Context.categories: pointer to the table lookups use
          nextPtr,  \* next free heap pointer
          rb,       \* ghost: per frame, Name -> [k, v]   (the latest binding made in that frame)
          snap,     \* ghost: per frame, what was visible when it was pushed: [look, cat, gdef]
          nops, hist

vars == <<stack, tables, cur, nextPtr, rb, snap, nops, hist>>
view == <<stack, tables, cur, nextPtr, rb, snap, nops>>

Top == stack[Len(stack)]
Depth == Len(stack)
Max(S) == CHOOSE x \in S : \A y \in S : y <= x

Has(f, n) == n \in DOMAIN f
Put(f, n, v) == [x \in (DOMAIN f) \cup {n} |-> IF x = n THEN v ELSE f[x]]
Drop(f, n) == [x \in (DOMAIN f) \ {n} |-> f[x]]
Empty == <<>>

(* ---------- lookups, as the tokenizer and the parser perform them ---------- *)
DefFrames(s, n) == {i \in 1..Len(s) : Has(s[i].defs, n)}
LetFrames(s, n) == {i \in 1..Len(s) : Has(s[i].lets, n)}

(* Context.__getitem__ : innermost frame holding a macro of that name *)
LookupDef(s, n) == IF DefFrames(s, n) = {} THEN Undefined
                   ELSE DefB(s[Max(DefFrames(s, n))].defs[n])

(* get_let followed by macro lookup *)
MachLookupIn(s, n) ==
    IF LetFrames(s, n) = {} THEN LookupDef(s, n)
    ELSE LET lf == Max(LetFrames(s, n)) IN
         IF LetScoped /\ DefFrames(s, n) # {} /\ Max(DefFrames(s, n)) > lf
         THEN LookupDef(s, n)
         ELSE CharB(s[lf].lets[n])
MachLookup(n) == MachLookupIn(stack, n)

WhichCode(c) == tables[cur][c]

(* rule layer: the binding made last in the innermost frame that has one *)
RuleFrames(n) == {i \in 1..Len(rb) : Has(rb[i], n)}
RuleLookup(n) == IF RuleFrames(n) = {} THEN Undefined ELSE rb[Max(RuleFrames(n))][n]

(* ---------- helpers ---------- *)
NewFrame(o) == [obj |-> o, defs |-> IF o.id = 0 THEN Empty ELSE o.locals, lets |-> Empty, cats |-> cur]

LocalsRb(o) == IF o.id = 0 THEN Empty
               ELSE [n \in DOMAIN o.locals |-> DefB(o.locals[n])]

SnapAt(s, ptr) == [look |-> [n \in Names |-> MachLookupIn(s, n)], cat |-> [c \in Chars |-> tables[ptr][c]], gdef |-> {}]
SnapNow == SnapAt(stack, cur)

(* which frames share a catcode table: each frame is labelled by the lowest frame holding the
   same pointer (pointer values themselves are not observable in the implementation) *)
Canon(q) == [i \in 1..Len(q) |-> CHOOSE j \in 1..i : q[j] = q[i] /\ \A m \in 1..(j - 1) : q[m] # q[i]]

(* projection of the NEXT state that is compared with the implementation *)
PostRec == [depth |-> Len(stack'),
            look |-> [n \in Names |-> MachLookupIn(stack', n)],
            cat |-> [c \in Chars |-> tables'[cur'][c]],
            share |-> Canon([i \in 1..Len(stack') |-> stack'[i].cats]),
            objs |-> [i \in 1..Len(stack') |-> stack'[i].obj.id]]

Log(op) == /\ nops < MaxOps /\ nops' = nops + 1
           /\ hist' = IF KeepHist THEN Append(hist, op @@ PostRec) ELSE <<op @@ PostRec>>

OpRec(op, o, n, v, c, k) == [op |-> op, o |-> o, n |-> n, v |-> v, c |-> c, k |-> k]

(* truncate the three parallel stacks to length d and re-point cur (mapMethods) *)
TruncTo(d) == /\ stack' = SubSeq(stack, 1, d)
              /\ rb' = SubSeq(rb, 1, d)
              /\ snap' = SubSeq(snap, 1, d)
              /\ cur' = stack[d].cats

(* ---------- actions ---------- *)
PushAnon ==
    /\ stack' = Append(stack, NewFrame(NoObj))
    /\ rb' = Append(rb, Empty)
    /\ snap' = Append(snap, SnapNow)
    /\ UNCHANGED <<tables, cur, nextPtr>>
    /\ Log(OpRec("push", 0, "", 0, "", 0))

(* a document-level object first truncates the stack to the global frame *)
PushObjBody(o) ==
    /\ LET base == IF o.doc THEN 1 ELSE Len(stack)
       IN \* createContext takes Context.categories, which after the truncation still is the table of
          \* the frame that was on top before (mapMethods has not run yet)
          /\ stack' = Append(SubSeq(stack, 1, base), [obj |-> o, defs |-> o.locals, lets |-> Empty, cats |-> cur])
          /\ rb' = Append(SubSeq(rb, 1, base), LocalsRb(o))
          \* what closing this frame has to bring back is the state of the frame it sits on
          /\ snap' = Append(SubSeq(snap, 1, base), SnapAt(SubSeq(stack, 1, base), stack[base].cats))
    /\ UNCHANGED <<tables, cur, nextPtr>>
    /\ Log(OpRec("pushobj", o.id, "", 0, "", 0))

(* pop(): through object frames down to and including the nearest anonymous frame; the global
   frame is never popped *)
AnonIdx == {i \in 2..Len(stack) : stack[i].obj.id = 0}
PopAnon ==
    /\ LET d == IF AnonIdx = {} THEN 1 ELSE Max(AnonIdx) - 1 IN TruncTo(d)
    /\ UNCHANGED <<tables, nextPtr>>
    /\ Log(OpRec("pop", 0, "", 0, "", 0))

(* pop(obj): walk down from the top; anonymous frames are popped; stop
     - after popping the frame pushed by obj itself,
     - WITHOUT popping at the frame of obj's parent node,
     - after popping the \begin twin of an \end object (same type, mode end),
     - after popping the \foo frame of an \endfoo object;
   any other object frame is popped and the walk continues; the global frame stays. *)
StopKind(o, f) ==
    IF f.obj.id = 0 THEN "through"
    ELSE IF f.obj.id = o.id THEN "popstop"
    ELSE IF f.obj.id = o.par THEN "stay"
    ELSE IF f.obj.ty = o.ty /\ o.mode = "end" THEN "popstop"
    ELSE IF o.name = "end" \o f.obj.name THEN "popstop"
    ELSE "through"

RECURSIVE PopDepth(_, _)
(* resulting depth when walking from depth d *)
PopDepth(o, d) ==
    IF d <= 1 THEN 1
    ELSE LET sk == StopKind(o, stack[d]) IN
         IF sk = "popstop" THEN d - 1
         ELSE IF sk = "stay" THEN d
         ELSE PopDepth(o, d - 1)

PopObjBody(o) ==
    /\ TruncTo(PopDepth(o, Len(stack)))
    /\ UNCHANGED <<tables, nextPtr>>
    /\ Log(OpRec("popobj", o.id, "", 0, "", 0))

MarkGlobal(n) == [i \in 1..Len(snap) |-> [snap[i] EXCEPT !.gdef = @ \cup {n}]]

DefLocal(n, v) ==
    /\ n \in Names /\ v \in Vals
    /\ stack' = [stack EXCEPT ![Len(stack)].defs = Put(@, n, v),
                              ![Len(stack)].lets = IF LetScoped THEN Drop(@, n) ELSE @]
    /\ rb' = [rb EXCEPT ![Len(rb)] = Put(@, n, DefB(v))]
    /\ snap' = IF Len(stack) = 1 THEN MarkGlobal(n) ELSE snap
    /\ UNCHANGED <<tables, cur, nextPtr>>
    /\ Log(OpRec("deflocal", 0, n, v, "", 0))

DefGlobal(n, v) ==
    /\ n \in Names /\ v \in Vals
    /\ stack' = [stack EXCEPT ![1].defs = Put(@, n, v),
                              ![1].lets = IF LetScoped THEN Drop(@, n) ELSE @]
    /\ rb' = [rb EXCEPT ![1] = Put(@, n, DefB(v))]
    /\ snap' = MarkGlobal(n)
    /\ UNCHANGED <<tables, cur, nextPtr>>
    /\ Log(OpRec("defglobal", 0, n, v, "", 0))

(* \let\dest=\src : the current meaning of src (a macro) is bound locally *)
LetMacro(dest, src) ==
    /\ dest \in Names /\ src \in Names /\ LookupDef(stack, src) # Undefined
    /\ stack' = [stack EXCEPT ![Len(stack)].defs = Put(@, dest, LookupDef(stack, src).v),
                              ![Len(stack)].lets = IF LetScoped THEN Drop(@, dest) ELSE @]
    /\ rb' = [rb EXCEPT ![Len(rb)] = Put(@, dest, DefB(LookupDef(stack, src).v))]
    /\ snap' = IF Len(stack) = 1 THEN MarkGlobal(dest) ELSE snap
    /\ UNCHANGED <<tables, cur, nextPtr>>
    /\ Log(OpRec("letmacro", 0, dest, 0, src, 0))

(* \let\dest=c : alias to a character token, kept in the frame's lets table *)
LetChar(dest, c) ==
    /\ dest \in Names /\ c \in Chars
    /\ stack' = [stack EXCEPT ![Len(stack)].lets = Put(@, dest, c)]
    /\ rb' = [rb EXCEPT ![Len(rb)] = Put(@, dest, CharB(c))]
    /\ snap' = IF Len(stack) = 1 THEN MarkGlobal(dest) ELSE snap
    /\ UNCHANGED <<tables, cur, nextPtr>>
    /\ Log(OpRec("letchar", 0, dest, 0, c, 0))

(* catcode(): ALWAYS copies the current table, writes the copy, re-points top frame and cur *)
SetCat(c, k) ==
    /\ c \in Chars /\ k \in Codes
    /\ tables' = [p \in (DOMAIN tables) \cup {nextPtr} |->
                    IF p = nextPtr THEN [tables[cur] EXCEPT ![c] = k] ELSE tables[p]]
    /\ stack' = [stack EXCEPT ![Len(stack)].cats = nextPtr]
    /\ cur' = nextPtr /\ nextPtr' = nextPtr + 1
    /\ UNCHANGED <<rb, snap>>
    /\ Log(OpRec("catcode", 0, "", 0, c, k))

SetVerbatim ==
    /\ tables' = [p \in (DOMAIN tables) \cup {nextPtr} |-> IF p = nextPtr THEN VerbCat ELSE tables[p]]
    /\ stack' = [stack EXCEPT ![Len(stack)].cats = nextPtr]
    /\ cur' = nextPtr /\ nextPtr' = nextPtr + 1
    /\ UNCHANGED <<rb, snap>>
    /\ Log(OpRec("verbatim", 0, "", 0, "", 0))

PushObj(o) == o \in Objs /\ PushObjBody(o)
PopObj(o) == o \in Objs /\ PopObjBody(o)

Init == /\ stack = <<[obj |-> NoObj, defs |-> Empty, lets |-> Empty, cats |-> 1]>>
        /\ tables = (1 :> DefaultCat)
        /\ cur = 1 /\ nextPtr = 2
        /\ rb = <<Empty>>
        /\ snap = <<[look |-> [n \in Names |-> Undefined], cat |-> DefaultCat, gdef |-> {}]>>
        /\ nops = 0 /\ hist = <<>>

Next == \/ PushAnon \/ PopAnon \/ SetVerbatim
        \/ \E o \in Objs : PushObj(o) \/ PopObj(o)
        \/ \E n \in Names, v \in Vals : DefLocal(n, v) \/ DefGlobal(n, v)
        \/ \E n \in Names, m \in Names : LetMacro(n, m)
        \/ \E n \in Names, c \in Chars : LetChar(n, c)
        \/ \E c \in Chars, k \in Codes : SetCat(c, k)

Spec == Init /\ [][Next]_vars

-----------------------------------------------------------------------------
(* Invariants *)

(* name lookup always yields the innermost live definition *)
LookupInnermost == \A n \in Names : MachLookup(n) = RuleLookup(n)

(* the alias Context.categories always is the top frame's table (mapMethods / catcode) *)
CurIsTop == cur = Top.cats

ParallelStacks == Len(rb) = Len(stack) /\ Len(snap) = Len(stack) /\ Len(stack) >= 1

(* catcode() never writes a table that a frame below the top can see: stated as an action
   property -- every table reachable from a lower frame is unchanged by every step *)
NoWriteToSharedTable ==
    [][/\ \A p \in DOMAIN tables : tables'[p] = tables[p]
       /\ \A i \in 1..Len(stack) : (i < Len(stack) /\ i < Len(stack')) => stack'[i].cats = stack[i].cats]_vars

(* closing restores: after any step that shortens the stack, everything visible is what it was
   when the lowest removed frame was pushed, except names defined globally since then *)
RestoreOnClose ==
    [][(Len(stack') < Len(stack) /\ hist'[Len(hist')].op \in {"pop", "popobj"}) =>
         LET s == snap[Len(stack') + 1] IN
           /\ \A c \in Chars : tables'[cur'][c] = s.cat[c]
           /\ \A n \in Names \ s.gdef : MachLookupIn(stack', n) = s.look[n]]_vars

(* global definitions survive every pop: frame 1 is never removed and only DefGlobal or actions at
   depth 1 change it *)
GlobalSurvives ==
    [][Len(stack') < Len(stack) => stack'[1] = stack[1]]_vars

(* behaviour export: one behaviour per distinct state (hist is hidden by the VIEW) *)
EmitState == PrintT(<<"BEH", ToJson([h |-> hist])>>)
=============================================================================

-------------------------------- MODULE Expand --------------------------------
(***************************************************************************)
(* C02 / C03 -- macro expansion and conditionals.                          *)
(*                                                                         *)
(* A reference machine for a macro language, executed by TLC on programs   *)
(* (token lists) read from IOEnv.PROGRAM_FILE (ndjson, one program per     *)
(* line: {"toks": [...]}).  Tokens are strings: one-character strings are  *)
(* character tokens; strings starting with a backslash are control         *)
(* sequences; "#1".."#9" and "##" are parameter tokens.                    *)
(*                                                                         *)
(* Rule layer: TeX's substitution rule -- MatchRule (undelimited: one      *)
(* token or one brace group with the braces stripped; delimited: shortest  *)
(* prefix followed by the delimiter at brace depth 0, one outer brace pair *)
(* stripped), Subst, and for conditionals BranchRule (the syntactic        *)
(* structure of the conditional found by recursive descent).               *)
(* Machine layer: MatchCode -- Definition.invoke parameter by parameter    *)
(* (single-token delimiters compared without brace awareness, further      *)
(* literal tokens checked one by one) -- and SelectBranch -- the linear    *)
(* scan with a nesting counter of TeX.processIfContent with its case list. *)
(* Invariants compare the two at every call / every conditional.           *)
(***************************************************************************)
EXTENDS Naturals, Integers, Sequences, FiniteSets, TLC, Json, IOUtils

CONSTANTS MaxSteps,
          IfCaseElse     \* TRUE: an \ifcase selector outside the listed cases selects the \else text or nothing
                         \* (repaired); FALSE: the selector indexes the raw case list (as built, F3)

Programs == ndJsonDeserialize(IOEnv.PROGRAM_FILE)

VARIABLES pid, inp, frames, out, err, steps, lastcall
vars == <<pid, inp, frames, out, err, steps, lastcall>>

IsCs(t) == Len(t) > 1 /\ SubSeq(t, 1, 1) = "\\"
IsParam(t) == Len(t) = 2 /\ SubSeq(t, 1, 1) = "#" /\ t # "##"
ParamNo(t) == CASE t = "#1" -> 1 [] t = "#2" -> 2 [] t = "#3" -> 3 [] t = "#4" -> 4 [] t = "#5" -> 5
                [] t = "#6" -> 6 [] t = "#7" -> 7 [] t = "#8" -> 8 [] t = "#9" -> 9
IsChar(t) == Len(t) = 1 /\ t \notin {"{", "}"}
Digits == {"0", "1", "2", "3", "4", "5", "6", "7", "8", "9"}
DigitVal(t) == CASE t = "0" -> 0 [] t = "1" -> 1 [] t = "2" -> 2 [] t = "3" -> 3 [] t = "4" -> 4
                 [] t = "5" -> 5 [] t = "6" -> 6 [] t = "7" -> 7 [] t = "8" -> 8 [] t = "9" -> 9

Has(f, x) == x \in DOMAIN f
Put(f, x, v) == [y \in (DOMAIN f) \cup {x} |-> IF y = x THEN v ELSE f[y]]

(* ---------- token list helpers ---------- *)
RECURSIVE CloseIdx(_, _, _)
(* index of the "}" matching an already opened group, scanning from i with depth d *)
CloseIdx(s, i, d) == IF i > Len(s) THEN 0
                     ELSE IF s[i] = "{" THEN CloseIdx(s, i + 1, d + 1)
                     ELSE IF s[i] = "}" THEN (IF d = 1 THEN i ELSE CloseIdx(s, i + 1, d - 1))
                     ELSE CloseIdx(s, i + 1, d)
(* s[1] = "{" : the content and the rest *)
GroupOf(s) == LET j == CloseIdx(s, 2, 1) IN [ok |-> j > 0, body |-> SubSeq(s, 2, j - 1), rest |-> SubSeq(s, j + 1, Len(s))]

(* blank tokens in front of an undelimited argument are skipped (TeX: "undelimited parameters skip spaces"; readArgument strips them) *)
RECURSIVE SkipSp(_)
SkipSp(s) == IF s # <<>> /\ s[1] = " " THEN SkipSp(Tail(s)) ELSE s

RECURSIVE FirstIdx(_, _, _)
FirstIdx(s, t, i) == IF i > Len(s) THEN 0 ELSE IF s[i] = t THEN i ELSE FirstIdx(s, t, i + 1)

(* ---------- meanings ---------- *)
Primitives == {"\\def", "\\gdef", "\\let", "\\csname", "\\endcsname", "\\expandafter", "\\relax", "\\begingroup", "\\endgroup",
               "\\newcommand", "\\renewcommand", "\\iftrue", "\\iffalse", "\\ifnum", "\\ifodd", "\\ifcase", "\\ifx", "\\ifdefined",
               "\\ifdim", "\\else", "\\or", "\\fi", "\\newif"}
Undefined == [k |-> "undef", pat |-> <<>>, body |-> <<>>, opt |-> <<>>, hasopt |-> FALSE, n |-> 0, c |-> ""]
Macro(p, b) == [k |-> "macro", pat |-> p, body |-> b, opt |-> <<>>, hasopt |-> FALSE, n |-> 0, c |-> ""]
NewCmd(n, hasopt, opt, b) == [k |-> "newcmd", pat |-> <<>>, body |-> b, opt |-> opt, hasopt |-> hasopt, n |-> n, c |-> ""]
CharM(ch) == [k |-> "char", pat |-> <<>>, body |-> <<>>, opt |-> <<>>, hasopt |-> FALSE, n |-> 0, c |-> ch]
PrimM(p) == [k |-> "prim", pat |-> <<>>, body |-> <<>>, opt |-> <<>>, hasopt |-> FALSE, n |-> 0, c |-> p]
SwitchM(b) == [k |-> "switch", pat |-> <<>>, body |-> <<>>, opt |-> <<>>, hasopt |-> FALSE, n |-> (IF b THEN 1 ELSE 0), c |-> ""]
SetterM(ifname, b) == [k |-> "setter", pat |-> <<>>, body |-> <<>>, opt |-> <<>>, hasopt |-> FALSE, n |-> (IF b THEN 1 ELSE 0), c |-> ifname]

MaxF(S) == CHOOSE x \in S : \A y \in S : y <= x
DefFrames(fr, name) == {i \in 1..Len(fr) : Has(fr[i], name)}
Meaning(fr, name) == IF DefFrames(fr, name) # {} THEN fr[MaxF(DefFrames(fr, name))][name]
                     ELSE IF name \in Primitives THEN PrimM(name) ELSE Undefined

(* ---------- rule layer: TeX's parameter matching ---------- *)
(* pattern segments: leading literals, then for each parameter the literal tokens that delimit it *)
RECURSIVE Lits(_)
Lits(p) == IF p = <<>> \/ IsParam(Head(p)) THEN <<>> ELSE <<Head(p)>> \o Lits(Tail(p))

RECURSIVE StartsWith(_, _)
StartsWith(s, d) == Len(s) >= Len(d) /\ SubSeq(s, 1, Len(d)) = d

RECURSIVE DelimPos(_, _, _, _)
(* first position i >= from at brace depth 0 where s continues with d ; 0 if none *)
DelimPos(s, d, i, depth) ==
    IF i > Len(s) THEN 0
    ELSE IF depth = 0 /\ StartsWith(SubSeq(s, i, Len(s)), d) THEN i
    ELSE IF s[i] = "{" THEN DelimPos(s, d, i + 1, depth + 1)
    ELSE IF s[i] = "}" THEN (IF depth = 0 THEN 0 ELSE DelimPos(s, d, i + 1, depth - 1))
    ELSE DelimPos(s, d, i + 1, depth)

StripOuter(a) == IF a # <<>> /\ a[1] = "{" /\ CloseIdx(a, 2, 1) = Len(a) THEN SubSeq(a, 2, Len(a) - 1) ELSE a

RECURSIVE MatchRuleP(_, _, _)
(* p: pattern from a parameter token on ; returns [ok, args, rest] *)
MatchRuleP(p, s, args) ==
    IF p = <<>> THEN [ok |-> TRUE, args |-> args, rest |-> s]
    ELSE LET d == Lits(Tail(p))
             pnext == SubSeq(p, 2 + Len(d), Len(p))
         IN IF d = <<>>
            THEN (* undelimited: blanks skipped, then one token or one group *)
                 LET t == SkipSp(s) IN
                 IF t = <<>> THEN [ok |-> FALSE, args |-> args, rest |-> s]
                 ELSE IF t[1] = "{" THEN LET g == GroupOf(t) IN
                                         IF g.ok THEN MatchRuleP(pnext, g.rest, Append(args, g.body)) ELSE [ok |-> FALSE, args |-> args, rest |-> s]
                 ELSE MatchRuleP(pnext, Tail(t), Append(args, <<t[1]>>))
            ELSE LET i == DelimPos(s, d, 1, 0) IN
                 IF i = 0 THEN [ok |-> FALSE, args |-> args, rest |-> s]
                 ELSE MatchRuleP(pnext, SubSeq(s, i + Len(d), Len(s)), Append(args, StripOuter(SubSeq(s, 1, i - 1))))

MatchRule(p, s) == LET l == Lits(p) IN
                   IF ~StartsWith(s, l) THEN [ok |-> FALSE, args |-> <<>>, rest |-> s]
                   ELSE MatchRuleP(SubSeq(p, Len(l) + 1, Len(p)), SubSeq(s, Len(l) + 1, Len(s)), <<>>)

(* ---------- machine layer: Definition.invoke ---------- *)
(* readArgument: one token, or one brace group (returned without its braces) *)
ReadArg(s0) == LET s == SkipSp(s0) IN          \* readArgument(stripLeadingWhitespace)
              IF s = <<>> THEN [ok |-> FALSE, arg |-> <<>>, rest |-> s]
              ELSE IF s[1] = "{" THEN LET g == GroupOf(s) IN [ok |-> g.ok, arg |-> g.body, rest |-> g.rest]
              ELSE [ok |-> TRUE, arg |-> <<s[1]>>, rest |-> Tail(s)]

RECURSIVE MatchCodeP(_, _, _, _)
(* walk the argument string token by token; inparam = a parameter is waiting for its text *)
MatchCodeP(p, s, args, inparam) ==
    IF p = <<>>
    THEN IF inparam THEN LET r == ReadArg(s) IN [ok |-> r.ok, args |-> Append(args, r.arg), rest |-> r.rest]
         ELSE [ok |-> TRUE, args |-> args, rest |-> s]
    ELSE LET a == Head(p) IN
         IF IsParam(a)
         THEN IF inparam      \* adjacent parameters: the previous one takes one token or group
              THEN LET r == ReadArg(s) IN
                   IF r.ok THEN MatchCodeP(Tail(p), r.rest, Append(args, r.arg), TRUE) ELSE [ok |-> FALSE, args |-> args, rest |-> s]
              ELSE MatchCodeP(Tail(p), s, args, TRUE)
         ELSE IF inparam
              THEN (* everything up to the first token equal to a, braces are not looked at *)
                   LET i == FirstIdx(s, a, 1) IN
                   IF i = 0 THEN [ok |-> FALSE, args |-> args, rest |-> s]
                   ELSE MatchCodeP(Tail(p), SubSeq(s, i + 1, Len(s)), Append(args, SubSeq(s, 1, i - 1)), FALSE)
              ELSE (* a literal: the next token is consumed whether or not it matches *)
                   IF s = <<>> THEN [ok |-> FALSE, args |-> args, rest |-> s]
                   ELSE IF s[1] = a THEN MatchCodeP(Tail(p), Tail(s), args, FALSE)
                   ELSE [ok |-> FALSE, args |-> args, rest |-> Tail(s)]

MatchCode(p, s) == MatchCodeP(p, s, <<>>, FALSE)

RECURSIVE Subst(_, _)
Subst(body, args) ==
    IF body = <<>> THEN <<>>
    ELSE LET t == Head(body) IN
         (IF t = "##" THEN <<"#">>                         \* a literal parameter character for an inner definition
          ELSE IF IsParam(t) THEN (IF ParamNo(t) <= Len(args) THEN args[ParamNo(t)] ELSE <<>>)
          ELSE <<t>>) \o Subst(Tail(body), args)

(* inside an inner \def produced by ## the harness writes "#" "1" as two tokens; re-join them *)
RECURSIVE Rejoin(_)
Rejoin(s) == IF s = <<>> THEN <<>>
             ELSE IF s[1] = "#" /\ Len(s) >= 2 /\ s[2] \in Digits \ {"0"} THEN <<"#" \o s[2]>> \o Rejoin(SubSeq(s, 3, Len(s)))
             ELSE <<s[1]>> \o Rejoin(Tail(s))

(* ---------- numbers ---------- *)
RECURSIVE ReadDigits(_, _, _)
ReadDigits(s, acc, any) == IF s # <<>> /\ s[1] \in Digits THEN ReadDigits(Tail(s), acc * 10 + DigitVal(s[1]), TRUE)
                           ELSE [ok |-> any, v |-> acc, rest |-> s]
(* a number: optional minus sign, digits, or a parameterless macro expanding to such; a following \relax is consumed *)
RECURSIVE ReadNum(_, _, _)
ReadNum(fr, s, fuel) ==
    IF s = <<>> \/ fuel = 0 THEN [ok |-> FALSE, v |-> 0, rest |-> s]
    ELSE IF s[1] = "-" THEN LET r == ReadNum(fr, Tail(s), fuel) IN [ok |-> r.ok, v |-> 0 - r.v, rest |-> r.rest]
    ELSE IF IsCs(s[1]) /\ Meaning(fr, s[1]).k = "macro" /\ Meaning(fr, s[1]).pat = <<>>
         THEN ReadNum(fr, Meaning(fr, s[1]).body \o Tail(s), fuel - 1)
    ELSE LET r == ReadDigits(s, 0, FALSE) IN
         [ok |-> r.ok, v |-> r.v, rest |-> IF r.rest # <<>> /\ r.rest[1] = "\\relax" THEN Tail(r.rest) ELSE r.rest]

(* ---------- conditionals ---------- *)
StartsIf(t) == Len(t) >= 3 /\ SubSeq(t, 1, 3) = "\\if"

(* machine: TeX.processIfContent -- linear scan, nesting counter, list of cases; returns [cases, rest, haselse, ok] *)
RECURSIVE ScanIf(_, _, _, _, _)
ScanIf(s, cases, nesting, haselse, elseat) ==
    IF s = <<>> THEN [cases |-> cases, rest |-> <<>>, haselse |-> haselse, elseat |-> elseat, ok |-> FALSE]
    ELSE LET t == Head(s)
             n == Len(cases)
             add(x) == [cases EXCEPT ![n] = Append(@, x)]
         IN IF t = "\\newif" /\ Len(s) >= 2 THEN ScanIf(SubSeq(s, 3, Len(s)), [cases EXCEPT ![n] = @ \o <<t, s[2]>>], nesting, haselse, elseat)
            ELSE IF StartsIf(t) THEN ScanIf(Tail(s), add(t), nesting + 1, haselse, elseat)
            ELSE IF t = "\\fi" THEN (IF nesting = 0 THEN [cases |-> cases, rest |-> Tail(s), haselse |-> haselse, elseat |-> elseat, ok |-> TRUE]
                                     ELSE ScanIf(Tail(s), add(t), nesting - 1, haselse, elseat))
            ELSE IF nesting = 0 /\ t = "\\else" THEN ScanIf(Tail(s), Append(cases, <<>>), nesting, TRUE, n + 1)
            ELSE IF nesting = 0 /\ t = "\\or" THEN ScanIf(Tail(s), Append(cases, <<>>), nesting, haselse, elseat)
            ELSE ScanIf(Tail(s), add(t), nesting, haselse, elseat)

(* which: 0 = true / first case ... ; the code appends an empty case for a missing \else *)
SelectBranch(s, which) ==
    LET sc == ScanIf(s, <<<<>>>>, 0, FALSE, 0)
        cs == Append(sc.cases, <<>>)
        listed == IF sc.haselse THEN sc.elseat - 1 ELSE Len(sc.cases)      \* cases before the \else
        idx == IF IfCaseElse
               THEN (IF which >= 0 /\ which < listed THEN which + 1 ELSE IF sc.haselse THEN sc.elseat ELSE Len(cs))
               ELSE (IF which >= 0 THEN which + 1 ELSE Len(cs) + which + 1)    \* Python list indexing
    IN [ok |-> sc.ok /\ idx >= 1 /\ idx <= Len(cs), text |-> IF idx >= 1 /\ idx <= Len(cs) THEN cs[idx] ELSE <<>>, rest |-> sc.rest]

(* rule: the conditional's syntactic structure by recursive descent: an inner conditional is skipped as a
   unit (from its \if... to its own \fi); top-level \or / \else separate the cases *)
RECURSIVE SkipCond(_, _)
(* s starts just after an \if... token; index (in s) of its matching \fi, 0 if none *)
SkipCond(s, i) == IF i > Len(s) THEN 0
                  ELSE IF s[i] = "\\newif" THEN SkipCond(s, i + 2)
                  ELSE IF StartsIf(s[i]) THEN (LET j == SkipCond(s, i + 1) IN IF j = 0 THEN 0 ELSE SkipCond(s, j + 1))
                  ELSE IF s[i] = "\\fi" THEN i
                  ELSE SkipCond(s, i + 1)
RECURSIVE SplitCases(_, _, _, _, _)
SplitCases(s, i, cur, acc, elseat) ==
    IF i > Len(s) THEN [cases |-> Append(acc, cur), elseat |-> elseat]
    ELSE IF s[i] = "\\newif" /\ i < Len(s) THEN SplitCases(s, i + 2, cur \o <<s[i], s[i + 1]>>, acc, elseat)
    ELSE IF StartsIf(s[i]) THEN LET j == SkipCond(s, i + 1) IN
                                IF j = 0 THEN [cases |-> Append(acc, cur \o SubSeq(s, i, Len(s))), elseat |-> elseat]
                                ELSE SplitCases(s, j + 1, cur \o SubSeq(s, i, j), acc, elseat)
    ELSE IF s[i] = "\\or" THEN SplitCases(s, i + 1, <<>>, Append(acc, cur), elseat)
    ELSE IF s[i] = "\\else" THEN SplitCases(s, i + 1, <<>>, Append(acc, cur), Len(acc) + 2)
    ELSE SplitCases(s, i + 1, Append(cur, s[i]), acc, elseat)

BranchRule(s, which) ==
    LET fi == SkipCond(s, 1)
        inner == SubSeq(s, 1, fi - 1)
        sp == SplitCases(inner, 1, <<>>, <<>>, 0)
        listed == IF sp.elseat > 0 THEN sp.elseat - 1 ELSE Len(sp.cases)
    IN [ok |-> fi > 0,
        text |-> IF which >= 0 /\ which < listed THEN sp.cases[which + 1]
                 ELSE IF sp.elseat > 0 THEN sp.cases[sp.elseat] ELSE <<>>,
        rest |-> SubSeq(s, fi + 1, Len(s))]

(* ---------- the machine ---------- *)
Init == /\ pid \in 1..Len(Programs)
        /\ inp = Programs[pid].toks
        /\ frames = <<<<>>>> /\ out = <<>> /\ err = "" /\ steps = 0 /\ lastcall = <<>>

Top == Len(frames)
Bind(fr, i, name, m) == [fr EXCEPT ![i] = Put(@, name, m)]

Fail(msg) == /\ err' = msg /\ UNCHANGED <<pid, inp, frames, out, lastcall>> /\ steps' = steps + 1
Go(ni, nf, no) == /\ inp' = ni /\ frames' = nf /\ out' = no /\ steps' = steps + 1 /\ UNCHANGED <<pid, err>>

(* parse  \def\name <parameter text> { body }  from s = tokens after \def *)
ParseDef(s) == LET b == FirstIdx(s, "{", 2) IN
               IF Len(s) < 3 \/ b = 0 THEN [ok |-> FALSE, name |-> "", pat |-> <<>>, body |-> <<>>, rest |-> s]
               ELSE LET g == GroupOf(SubSeq(s, b, Len(s))) IN
                    [ok |-> g.ok /\ IsCs(s[1]), name |-> s[1], pat |-> Rejoin(SubSeq(s, 2, b - 1)), body |-> Rejoin(g.body), rest |-> g.rest]

(* \newcommand{\name}[n][default]{body}  (harness always writes the braces around the name) *)
ParseNewcommand(s) ==
    IF Len(s) < 5 \/ s[1] # "{" \/ s[3] # "}" THEN [ok |-> FALSE, name |-> "", m |-> Undefined, rest |-> s]
    ELSE LET name == s[2]
             r1 == SubSeq(s, 4, Len(s))
             hasn == Len(r1) >= 3 /\ r1[1] = "[" /\ r1[2] \in Digits /\ r1[3] = "]"
             n == IF hasn THEN DigitVal(r1[2]) ELSE 0
             r2 == IF hasn THEN SubSeq(r1, 4, Len(r1)) ELSE r1
             hasopt == hasn /\ r2 # <<>> /\ r2[1] = "["
             oc == IF hasopt THEN FirstIdx(r2, "]", 2) ELSE 0
             opt == IF hasopt /\ oc > 0 THEN SubSeq(r2, 2, oc - 1) ELSE <<>>
             r3 == IF hasopt /\ oc > 0 THEN SubSeq(r2, oc + 1, Len(r2)) ELSE r2
         IN IF r3 = <<>> \/ r3[1] # "{" THEN [ok |-> FALSE, name |-> "", m |-> Undefined, rest |-> s]
            ELSE LET g == GroupOf(r3) IN [ok |-> g.ok, name |-> name, m |-> NewCmd(n, hasopt, opt, g.body), rest |-> g.rest]

(* arguments of a \newcommand macro: optional first argument in [..] or its default, then mandatory ones *)
RECURSIVE ReadN(_, _, _)
ReadN(s, k, args) == IF k = 0 THEN [ok |-> TRUE, args |-> args, rest |-> s]
                     ELSE LET r == ReadArg(s) IN IF r.ok THEN ReadN(r.rest, k - 1, Append(args, r.arg)) ELSE [ok |-> FALSE, args |-> args, rest |-> s]
CallNewCmd(m, s) ==
    IF m.hasopt
    THEN IF s # <<>> /\ s[1] = "[" /\ FirstIdx(s, "]", 2) > 0
         THEN LET c == FirstIdx(s, "]", 2) IN ReadN(SubSeq(s, c + 1, Len(s)), m.n - 1, <<SubSeq(s, 2, c - 1)>>)
         ELSE ReadN(s, m.n - 1, <<m.opt>>)
    ELSE ReadN(s, m.n, <<>>)

RECURSIVE Concat(_)
Concat(cs) == IF cs = <<>> THEN "" ELSE cs[1] \o Concat(Tail(cs))

(* one level of expansion of the token at the head of s (for \expandafter); non-expandable: unchanged *)
ExpandOnce(fr, s) ==
    IF s = <<>> THEN s
    ELSE LET m == IF IsCs(s[1]) THEN Meaning(fr, s[1]) ELSE Undefined IN
         IF m.k = "macro" THEN LET r == MatchCode(m.pat, Tail(s)) IN IF r.ok THEN Subst(m.body, r.args) \o r.rest ELSE s
         ELSE IF m.k = "newcmd" THEN LET r == CallNewCmd(m, Tail(s)) IN IF r.ok THEN Subst(m.body, r.args) \o r.rest ELSE s
         ELSE IF m.k = "prim" /\ m.c = "\\csname"
              THEN LET e == FirstIdx(s, "\\endcsname", 2) IN
                   IF e = 0 THEN s ELSE <<"\\" \o Concat(SubSeq(s, 2, e - 1))>> \o SubSeq(s, e + 1, Len(s))
         ELSE s

CondStep(name, m, rest) ==
    \* returns [ok, which, rest]
    CASE name = "\\iftrue" -> [ok |-> TRUE, which |-> 0, rest |-> rest]
      [] name = "\\iffalse" -> [ok |-> TRUE, which |-> 1, rest |-> rest]
      [] name = "\\ifnum" -> LET a == ReadNum(frames, rest, 5)
                                 rel == IF a.rest = <<>> THEN "" ELSE a.rest[1]
                                 b == IF a.rest = <<>> THEN a ELSE ReadNum(frames, Tail(a.rest), 5)
                             IN [ok |-> a.ok /\ b.ok /\ rel \in {"<", ">", "="},
                                 which |-> IF (rel = "<" /\ a.v < b.v) \/ (rel = ">" /\ a.v > b.v) \/ (rel = "=" /\ a.v = b.v) THEN 0 ELSE 1,
                                 rest |-> b.rest]
      [] name = "\\ifdim" -> LET a == ReadNum(frames, rest, 5)
                                 au == IF Len(a.rest) >= 2 /\ a.rest[1] = "p" /\ a.rest[2] = "t" THEN SubSeq(a.rest, 3, Len(a.rest)) ELSE <<>>
                                 rel == IF au = <<>> THEN "" ELSE au[1]
                                 b == IF au = <<>> THEN a ELSE ReadNum(frames, Tail(au), 5)
                                 bu == IF Len(b.rest) >= 2 /\ b.rest[1] = "p" /\ b.rest[2] = "t" THEN SubSeq(b.rest, 3, Len(b.rest)) ELSE <<>>
                             IN [ok |-> a.ok /\ b.ok /\ rel \in {"<", ">", "="},
                                 which |-> IF (rel = "<" /\ a.v < b.v) \/ (rel = ">" /\ a.v > b.v) \/ (rel = "=" /\ a.v = b.v) THEN 0 ELSE 1,
                                 rest |-> IF bu # <<>> /\ bu[1] = "\\relax" THEN Tail(bu) ELSE bu]
      [] name = "\\ifodd" -> LET a == ReadNum(frames, rest, 5) IN [ok |-> a.ok, which |-> IF a.v % 2 = 1 THEN 0 ELSE 1, rest |-> a.rest]
      [] name = "\\ifcase" -> LET a == ReadNum(frames, rest, 5) IN [ok |-> a.ok, which |-> a.v, rest |-> a.rest]
      [] name = "\\ifdefined" -> [ok |-> rest # <<>>, which |-> IF rest # <<>> /\ Meaning(frames, rest[1]).k # "undef" THEN 0 ELSE 1,
                                  rest |-> IF rest = <<>> THEN rest ELSE Tail(rest)]
      [] name = "\\ifx" -> [ok |-> Len(rest) >= 2,
                            which |-> IF Len(rest) >= 2 /\
                                         (IF IsCs(rest[1]) /\ IsCs(rest[2]) THEN Meaning(frames, rest[1]) = Meaning(frames, rest[2])
                                          ELSE rest[1] = rest[2]) THEN 0 ELSE 1,
                            rest |-> SubSeq(rest, 3, Len(rest))]
      [] OTHER -> [ok |-> TRUE, which |-> IF m.n = 1 THEN 0 ELSE 1, rest |-> rest]           \* a \newif switch

Step ==
    /\ err = "" /\ inp # <<>> /\ steps < MaxSteps
    /\ LET t == Head(inp)
           rest == Tail(inp)
           m == IF IsCs(t) THEN Meaning(frames, t) ELSE Undefined
       IN IF t = "{" \/ (m.k = "prim" /\ m.c = "\\begingroup") THEN Go(rest, Append(frames, <<>>), out) /\ UNCHANGED lastcall
          ELSE IF t = "}" \/ (m.k = "prim" /\ m.c = "\\endgroup")
               THEN (IF Top > 1 THEN Go(rest, SubSeq(frames, 1, Top - 1), out) /\ UNCHANGED lastcall ELSE Fail("unbalanced"))
          ELSE IF ~IsCs(t) THEN Go(rest, frames, Append(out, t)) /\ UNCHANGED lastcall
          ELSE CASE m.k = "char" -> Go(rest, frames, Append(out, m.c)) /\ UNCHANGED lastcall
                 [] m.k = "undef" -> Fail("undefined " \o t)
                 [] m.k = "macro" ->
                      LET r == MatchCode(m.pat, rest) IN
                      IF ~r.ok THEN Fail("nomatch " \o t)
                      ELSE /\ Go(Subst(m.body, r.args) \o r.rest, frames, out)
                           /\ lastcall' = <<m.pat, rest>>
                 [] m.k = "newcmd" ->
                      LET r == CallNewCmd(m, rest) IN
                      IF ~r.ok THEN Fail("nomatch " \o t) ELSE Go(Subst(m.body, r.args) \o r.rest, frames, out) /\ UNCHANGED lastcall
                 [] m.k = "switch" ->
                      LET sb == SelectBranch(rest, IF m.n = 1 THEN 0 ELSE 1) IN
                      IF ~sb.ok THEN Fail("if") ELSE Go(sb.text \o sb.rest, frames, out) /\ lastcall' = <<<<"IF", ToString(IF m.n = 1 THEN 0 ELSE 1)>>, rest>>
                 [] m.k = "setter" -> Go(rest, Bind(frames, 1, m.c, SwitchM(m.n = 1)), out) /\ UNCHANGED lastcall
                 [] m.k = "prim" ->
                      (CASE m.c = "\\relax" -> Go(rest, frames, out) /\ UNCHANGED lastcall
                         [] m.c \in {"\\def", "\\gdef"} ->
                              LET d == ParseDef(rest) IN
                              IF ~d.ok THEN Fail("baddef")
                              ELSE Go(d.rest, Bind(frames, IF m.c = "\\gdef" THEN 1 ELSE Top, d.name, Macro(d.pat, d.body)), out) /\ UNCHANGED lastcall
                         [] m.c \in {"\\newcommand", "\\renewcommand"} ->
                              LET d == ParseNewcommand(rest) IN
                              IF ~d.ok THEN Fail("badnewcommand") ELSE Go(d.rest, Bind(frames, 1, d.name, d.m), out) /\ UNCHANGED lastcall
                         [] m.c = "\\let" ->
                              LET r2 == IF Len(rest) >= 2 /\ rest[2] = "=" THEN <<rest[1]>> \o SubSeq(rest, 3, Len(rest)) ELSE rest IN
                              IF Len(r2) < 2 \/ ~IsCs(r2[1]) THEN Fail("badlet")
                              ELSE Go(SubSeq(r2, 3, Len(r2)),
                                      Bind(frames, Top, r2[1], IF IsCs(r2[2]) THEN Meaning(frames, r2[2]) ELSE CharM(r2[2])), out) /\ UNCHANGED lastcall
                         [] m.c = "\\csname" ->
                              LET e == FirstIdx(inp, "\\endcsname", 2) IN
                              IF e = 0 THEN Fail("csname") ELSE Go(<<"\\" \o Concat(SubSeq(inp, 2, e - 1))>> \o SubSeq(inp, e + 1, Len(inp)), frames, out) /\ UNCHANGED lastcall
                         [] m.c = "\\expandafter" ->
                              IF Len(rest) < 2 THEN Fail("expandafter")
                              ELSE Go(<<rest[1]>> \o ExpandOnce(frames, Tail(rest)), frames, out) /\ UNCHANGED lastcall
                         [] m.c = "\\newif" ->
                              IF rest = <<>> \/ ~StartsIf(rest[1]) THEN Fail("newif")
                              ELSE LET nm == SubSeq(rest[1], 4, Len(rest[1]))
                                       f1 == Bind(frames, 1, rest[1], SwitchM(FALSE))
                                       f2 == Bind(f1, 1, "\\" \o nm \o "true", SetterM(rest[1], TRUE))
                                       f3 == Bind(f2, 1, "\\" \o nm \o "false", SetterM(rest[1], FALSE))
                                   IN Go(Tail(rest), f3, out) /\ UNCHANGED lastcall
                         [] StartsIf(m.c) ->
                              LET c == CondStep(m.c, m, rest)
                                  sb == SelectBranch(c.rest, c.which)
                              IN IF ~c.ok \/ ~sb.ok THEN Fail("if")
                                 ELSE Go(sb.text \o sb.rest, frames, out) /\ lastcall' = <<<<"IF", ToString(c.which)>>, c.rest>>
                         [] OTHER -> Fail("stray " \o m.c))

Next == Step
Spec == Init /\ [][Next]_vars

Done == inp = <<>> \/ err # "" \/ steps >= MaxSteps

-----------------------------------------------------------------------------
(* at every macro call the code-shaped matcher agrees with TeX's rule (on conforming programs) *)
SubstExact == (lastcall # <<>> /\ lastcall[1] # <<>> /\ lastcall[1][1] # "IF") =>
                 LET c == MatchCode(lastcall[1], lastcall[2])
                     r == MatchRule(lastcall[1], lastcall[2])
                 IN c.ok /\ r.ok /\ c.args = r.args /\ c.rest = r.rest

(* at every conditional the scanner selects what the syntactic structure prescribes *)
BranchIsTeX == (lastcall # <<>> /\ lastcall[1] # <<>> /\ lastcall[1][1] = "IF") =>
                 LET w == IF lastcall[1][2] = "-1" THEN 0 - 1 ELSE IF lastcall[1][2] = "-2" THEN 0 - 2
                          ELSE CHOOSE k \in 0..99 : ToString(k) = lastcall[1][2]
                     a == SelectBranch(lastcall[2], w)
                     b == BranchRule(lastcall[2], w)
                 IN a.ok /\ b.ok /\ a.text = b.text /\ a.rest = b.rest

NoError == err = ""
GroupBalanced == (inp = <<>> /\ err = "") => Len(frames) = 1
TerminatesInBound == steps < MaxSteps

EmitDone == Done => PrintT(<<"BEH", ToJson([pid |-> pid, out |-> out, err |-> err, depth |-> Len(frames), trunc |-> (inp # <<>> /\ err = "")])>>)
=============================================================================

------------------------------- MODULE Verbatim -------------------------------
(***************************************************************************)
(* C11 (verbatim) -- the content of a verbatim environment or \verb is     *)
(* reproduced character for character and text after it is processed       *)
(* normally again.                                                         *)
(*                                                                         *)
(* A body is the concatenation of up to MaxChunks chunks from an           *)
(* adversarial catalogue (backslashes, braces, percent signs, ligature-    *)
(* like sequences, repeated blanks, line breaks, ^^-notation and every     *)
(* PARTIAL end marker) that does not contain the complete end marker.      *)
(* Machine layer: VerbatimEnvironment.invoke -- under the all-other        *)
(* category table every character is one token; tokens are collected and  *)
(* after each one the tail of the collection is compared with the end      *)
(* pattern(s); on a match the pattern is cut off.                          *)
(* Rule layer: the body is everything before the first occurrence of the   *)
(* end marker of the form that opened it.                                  *)
(***************************************************************************)
EXTENDS Naturals, Sequences, FiniteSets, TLC, Json

CONSTANTS Chunks,        \* set of Seq(Char)
          MaxChunks,
          EndEnv,        \* \end{verbatim} as Seq(Char)
          EndCmd,        \* \endverbatim  as Seq(Char)
          CmdFormOnlyForCommand   \* TRUE: \endverbatim ends only a body opened as \verbatim (repaired);
                                  \* FALSE: it ends a \begin{verbatim} body too (as built)

RECURSIVE Bodies(_)
Bodies(n) == IF n = 0 THEN {<<>>} ELSE LET P == Bodies(n - 1) IN P \cup {p \o c : p \in P, c \in Chunks}

Contains(s, pat) == \E i \in 1..(Len(s) - Len(pat) + 1) : SubSeq(s, i, i + Len(pat) - 1) = pat

VARIABLES body, src, acc, result, phase
vars == <<body, src, acc, result, phase>>

Init == /\ body \in {b \in Bodies(MaxChunks) : ~Contains(b \o SubSeq(EndEnv, 1, Len(EndEnv) - 1), EndEnv)}
        /\ src = body \o EndEnv \o <<"x">>
        /\ acc = <<>> /\ result = <<>> /\ phase = "collect"

Suffix(s, pat) == Len(s) >= Len(pat) /\ SubSeq(s, Len(s) - Len(pat) + 1, Len(s)) = pat

CollectChar ==
    /\ phase = "collect" /\ src # <<>>
    /\ LET a == Append(acc, Head(src)) IN
         IF Suffix(a, EndEnv)
         THEN result' = SubSeq(a, 1, Len(a) - Len(EndEnv)) /\ phase' = "done" /\ acc' = a
         ELSE IF ~CmdFormOnlyForCommand /\ Suffix(a, EndCmd)
         THEN result' = SubSeq(a, 1, Len(a) - Len(EndCmd)) /\ phase' = "done" /\ acc' = a
         ELSE acc' = a /\ UNCHANGED <<result, phase>>
    /\ src' = Tail(src) /\ UNCHANGED body
Next == CollectChar
Spec == Init /\ [][Next]_vars

BodyExact == phase = "done" => result = body
RestUntouched == phase = "done" => src = <<"x">>
Ends == (phase = "collect") => src # <<>>
Emit == phase = "done" => PrintT(<<"BEH", ToJson([body |-> body])>>)
=============================================================================

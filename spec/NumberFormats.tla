---------------------------- MODULE NumberFormats ----------------------------
(***************************************************************************)
(* C08: the arabic, roman, Roman, alph and Alph representations of a       *)
(* counter are the standard ones for every value in their range.           *)
(* Rule layer: Roman(n) by the subtractive table; RomanValue parses a      *)
(* numeral back under the subtractive grammar.  TLC checks for every n in  *)
(* 1..MaxN that the numeral parses back to n, is canonical (no symbol more *)
(* than three times in a row, except M), and prints the table in blocks;   *)
(* the harness compares Counter.Roman/roman/Alph/alph/arabic for all.      *)
(***************************************************************************)
EXTENDS Naturals, Sequences, TLC, Json
CONSTANTS MaxN, Block

Table == <<[v |-> 1000, s |-> <<"M">>], [v |-> 900, s |-> <<"C", "M">>], [v |-> 500, s |-> <<"D">>], [v |-> 400, s |-> <<"C", "D">>],
           [v |-> 100, s |-> <<"C">>], [v |-> 90, s |-> <<"X", "C">>], [v |-> 50, s |-> <<"L">>], [v |-> 40, s |-> <<"X", "L">>],
           [v |-> 10, s |-> <<"X">>], [v |-> 9, s |-> <<"I", "X">>], [v |-> 5, s |-> <<"V">>], [v |-> 4, s |-> <<"I", "V">>], [v |-> 1, s |-> <<"I">>]>>

RECURSIVE RomanFrom(_, _)
RomanFrom(n, i) == IF n = 0 THEN <<>> ELSE IF Table[i].v <= n THEN Table[i].s \o RomanFrom(n - Table[i].v, i) ELSE RomanFrom(n, i + 1)
Roman(n) == RomanFrom(n, 1)

Sym(c) == CASE c = "I" -> 1 [] c = "V" -> 5 [] c = "X" -> 10 [] c = "L" -> 50 [] c = "C" -> 100 [] c = "D" -> 500 [] c = "M" -> 1000
RECURSIVE RomanValue(_)
RomanValue(s) == IF s = <<>> THEN 0
                 ELSE IF Len(s) >= 2 /\ Sym(s[1]) < Sym(s[2]) THEN Sym(s[2]) - Sym(s[1]) + RomanValue(SubSeq(s, 3, Len(s)))
                 ELSE Sym(s[1]) + RomanValue(Tail(s))

Canonical(s) == \A i \in 1..(Len(s) - 3) : ~(s[i] = s[i + 1] /\ s[i + 1] = s[i + 2] /\ s[i + 2] = s[i + 3] /\ s[i] # "M")

Letters == <<"A","B","C","D","E","F","G","H","I","J","K","L","M","N","O","P","Q","R","S","T","U","V","W","X","Y","Z">>
Alph(n) == Letters[n]

VARIABLE b
Init == b = 0
Next == b * Block < MaxN /\ b' = b + 1
RomanIsStandard == \A n \in (((b * Block) + 1)..(IF (b + 1) * Block < MaxN THEN (b + 1) * Block ELSE MaxN)) :
                      RomanValue(Roman(n)) = n /\ Canonical(Roman(n))
Emit == PrintT(<<"BEH", ToJson([from |-> b * Block + 1,
                                roman |-> [k \in 1..(IF (b + 1) * Block <= MaxN THEN Block ELSE IF MaxN > b * Block THEN MaxN - b * Block ELSE 0) |-> Roman(b * Block + k)],
                                alph |-> IF b = 0 THEN Letters ELSE <<>>])>>)
=============================================================================

------------------------------ MODULE Crossref ------------------------------
(***************************************************************************)
(* C09 -- every reference resolves to the object its label names, wherever *)
(* the label is.                                                           *)
(*                                                                         *)
(* A document is an interleaving of three kinds of events: a numbered      *)
(* object begins (NewNumbered), a \label is met (it attaches to the        *)
(* current object), a \ref / \pageref is met.  The objects come in a fixed *)
(* order and each label belongs to one object (LabelOf); TLC explores ALL  *)
(* interleavings that keep a label after the start of its object and       *)
(* before the start of the next one -- i.e. every relative order of labels *)
(* and references.                                                         *)
(* Machine layer: Context.label / Context.ref -- the label table, the      *)
(* table of unresolved references with placeholder nodes, and the          *)
(* back-patching loop run when a label arrives.                            *)
(* Rule layer: Target(r) = the object LabelOf names for r's label, a       *)
(* function of the label assignment alone (order independent).             *)
(***************************************************************************)
EXTENDS Naturals, Sequences, FiniteSets, TLC, Json

CONSTANTS NObj,        \* objects 1..NObj in document order
          LabelOf,     \* Label -> object (the labels that exist); labels outside its domain are dangling
          RefLabel,    \* Ref -> label it names (a label of LabelOf or a dangling one)
          DropPending  \* TRUE (as the code does): the pending list of a label is deleted after back-patching

Labels == DOMAIN LabelOf
Refs == DOMAIN RefLabel
NoObj == 0

VARIABLES cur,       \* current object (Context.currentlabel), 0 before the first
          labels,    \* Context.labels : label -> object (partial)
          pending,   \* Context.refs : label -> sequence of references waiting
          idref,     \* ref -> [k |-> "obj", o] | [k |-> "placeholder", l]  (partial: only references met so far)
          ids,       \* object -> its identifier (last label attached) or "" (generated)
          doneL, doneR, hist
vars == <<cur, labels, pending, idref, ids, doneL, doneR, hist>>
view == <<cur, labels, pending, idref, ids, doneL, doneR>>

Has(f, x) == x \in DOMAIN f
Put(f, x, v) == [y \in (DOMAIN f) \cup {x} |-> IF y = x THEN v ELSE f[y]]
Drop(f, x) == [y \in (DOMAIN f) \ {x} |-> f[y]]

Init == /\ cur = 0 /\ labels = <<>> /\ pending = <<>> /\ idref = <<>> /\ ids = [o \in 1..NObj |-> ""]
        /\ doneL = {} /\ doneR = {} /\ hist = <<>>

(* the next numbered object begins: refstepcounter makes it the current label target; all labels of the
   previous object must have been met *)
NewNumbered ==
    /\ cur < NObj
    /\ \A l \in Labels : LabelOf[l] = cur => l \in doneL
    /\ cur' = cur + 1
    /\ hist' = Append(hist, [e |-> "obj", x |-> ""])
    /\ UNCHANGED <<labels, pending, idref, ids, doneL, doneR>>

(* \label{l}: register, make it the object's id, then resolve outstanding references *)
Label(l) ==
    /\ l \in Labels \ doneL /\ LabelOf[l] = cur /\ cur > 0
    /\ labels' = Put(labels, l, cur)
    /\ ids' = [ids EXCEPT ![cur] = l]
    /\ IF Has(pending, l)
       THEN /\ idref' = [r \in DOMAIN idref |->
                            IF (\E i \in 1..Len(pending[l]) : pending[l][i] = r) /\ idref[r].k = "placeholder" /\ idref[r].l = l
                            THEN [k |-> "obj", o |-> cur, l |-> ""] ELSE idref[r]]
            /\ pending' = IF DropPending THEN Drop(pending, l) ELSE pending
       ELSE UNCHANGED <<idref, pending>>
    /\ doneL' = doneL \cup {l}
    /\ hist' = Append(hist, [e |-> "label", x |-> l])
    /\ UNCHANGED <<cur, doneR>>

(* \ref{l}: resolve now, or hand out a placeholder and wait *)
Ref(r) ==
    /\ r \in Refs \ doneR
    /\ LET l == RefLabel[r] IN
         IF Has(labels, l)
         THEN /\ idref' = Put(idref, r, [k |-> "obj", o |-> labels[l], l |-> ""])
              /\ UNCHANGED pending
         ELSE /\ idref' = Put(idref, r, [k |-> "placeholder", o |-> 0, l |-> l])
              /\ pending' = Put(pending, l, IF Has(pending, l) THEN Append(pending[l], r) ELSE <<r>>)
    /\ doneR' = doneR \cup {r}
    /\ hist' = Append(hist, [e |-> "ref", x |-> r])
    /\ UNCHANGED <<cur, labels, ids, doneL>>

Next == NewNumbered \/ (\E l \in Labels : Label(l)) \/ (\E r \in Refs : Ref(r))
Spec == Init /\ [][Next]_vars

End == cur = NObj /\ doneL = Labels /\ doneR = Refs

-----------------------------------------------------------------------------
(* rule layer *)
Target(r) == IF RefLabel[r] \in Labels THEN [k |-> "obj", o |-> LabelOf[RefLabel[r]], l |-> ""]
             ELSE [k |-> "placeholder", o |-> 0, l |-> RefLabel[r]]

(* every reference to an existing label resolves to exactly the labelled object; dangling ones to no object;
   since Target does not mention the order of events this also states order independence *)
ResolvesToLabelled == End => \A r \in Refs : idref[r] = Target(r)

(* at any time: a reference met so far is resolved iff its label has been met *)
ResolvedIffLabelKnown == \A r \in doneR : (idref[r].k = "obj") <=> Has(labels, RefLabel[r])

(* no reference is left waiting for a label that is known *)
PendingEmptiedForKnownLabels == \A l \in DOMAIN pending : ~Has(labels, l)

(* labels naming distinct objects give distinct identifiers, and an object's identifier is one of its labels *)
DistinctIds == End => /\ \A o \in 1..NObj : (\E l \in Labels : LabelOf[l] = o) => (ids[o] \in Labels /\ LabelOf[ids[o]] = o)
                      /\ \A o1, o2 \in 1..NObj : (o1 # o2 /\ ids[o1] # "") => ids[o1] # ids[o2]

Emit == End => PrintT(<<"BEH", ToJson([h |-> hist, idref |-> idref, ids |-> ids])>>)
=============================================================================

--------------------------------- MODULE Split ---------------------------------
(***************************************************************************)
(* C13 / C14 -- rendering splits the document into files without losing or *)
(* repeating content, and every internal link lands on an existing target. *)
(*                                                                         *)
(* A document is a sequence of sectioning units in document order          *)
(*   [lvl, lab, fn, title]  (level 1..3, kind of label, has a footnote?, title) *)
(* preceded by the document body itself (node 0: level "document").  The   *)
(* tree is implied by the levels.  Each unit carries one body marker b<i>  *)
(* and, if fn, one footnote marker f<i>; cross references r : from -> to.  *)
(*                                                                         *)
(* Machine layer: Renderer.cacheFilenames (pre-order requests to the       *)
(* filename generator with the bindings Renderable.filename offers) and    *)
(* Renderable.__str__ (a child that owns a file is written to it and       *)
(* omitted from its parent's string; footnotes are gathered by the nearest *)
(* file-owning section), Renderable.url (own file, or the file of the      *)
(* nearest file-owning ancestor plus #id).                                 *)
(* Rule layer: FileOf(n) = nearest ancestor-or-self at or above the split  *)
(* level; Content(f) = the markers of the units with FileOf = f in         *)
(* document order, footnote text last.                                     *)
(***************************************************************************)
EXTENDS Naturals, Integers, Sequences, FiniteSets, TLC, Json

CONSTANTS MaxNodes,
          SplitLevels,     \* values of files.split-level explored
          Templates,       \* subset of {"default", "title", "plain", "single"}; plain = `index sect$num(4)`: names without brackets, the last one is the wildcard
          MaxRefs,
          LabKinds,        \* subset of {"none", "own", "index", "sect1"}: no label / a label of its own / the label "index" / the label "sect0001"
          RefKinds         \* subset of {"sec", "eq"}: references to labelled units / to the numbered equation every unit carries

VARIABLES nodes, docfn, split, tmpl, refs, done
vars == <<nodes, docfn, split, tmpl, refs, done>>

Titles == {"Intro", "Setup"}

Init == /\ nodes = <<>> /\ docfn \in BOOLEAN /\ split \in SplitLevels /\ tmpl \in Templates /\ refs = <<>> /\ done = FALSE
AddNode == /\ ~done /\ refs = <<>> /\ Len(nodes) < MaxNodes
           /\ \E l \in 1..3, lab \in LabKinds, fn \in BOOLEAN, t \in Titles :
                 /\ (lab \in {"index", "sect1"} => \A j \in 1..Len(nodes) : nodes[j].lab # lab)   \* a label is defined once
                 /\ (nodes = <<>> => l = 1)                                   \* the first unit is a section
                 /\ (nodes # <<>> => l <= nodes[Len(nodes)].lvl + 1)          \* no level is skipped
                 /\ nodes' = Append(nodes, [lvl |-> l, lab |-> lab, fn |-> fn, title |-> t])
           /\ UNCHANGED <<docfn, split, tmpl, refs, done>>
AddRef == /\ ~done /\ nodes # <<>> /\ Len(refs) < MaxRefs
          /\ \E a \in 0..Len(nodes), b \in 0..Len(nodes), k \in RefKinds :
                /\ (k = "sec" => b > 0 /\ nodes[b].lab # "none")
                /\ refs' = Append(refs, [from |-> a, to |-> b, kind |-> k])
          /\ UNCHANGED <<nodes, docfn, split, tmpl, done>>
Close == ~done /\ nodes # <<>> /\ done' = TRUE /\ UNCHANGED <<nodes, docfn, split, tmpl, refs>>
Next == AddNode \/ AddRef \/ Close
Spec == Init /\ [][Next]_vars

N == Len(nodes)
Lvl(i) == IF i = 0 THEN 0 - 100 ELSE nodes[i].lvl
EffSplit == IF tmpl = "single" THEN 0 - 10 ELSE split          \* a template that names one file forces level -10

(* ---------------- tree ---------------- *)
Parent(i) == IF i = 0 THEN 0 ELSE
             LET C == {j \in 1..(i - 1) : nodes[j].lvl < nodes[i].lvl} IN
             IF C = {} THEN 0 ELSE CHOOSE j \in C : \A m \in C : m <= j
Children(p) == SelectSeq([i \in 1..N |-> i], LAMBDA i : Parent(i) = p)
Owns(i) == i = 0 \/ Lvl(i) <= EffSplit

(* ---------------- rule layer ---------------- *)
RECURSIVE FileOf(_)
FileOf(i) == IF Owns(i) THEN i ELSE FileOf(Parent(i))
B(i) == <<"b", i>>
Fn(i) == <<"f", i>>
HasFn(i) == IF i = 0 THEN docfn ELSE nodes[i].fn
Content(f) == LET mine == SelectSeq([i \in 1..(N + 1) |-> i - 1], LAMBDA i : FileOf(i) = f) IN
              [k \in 1..Len(mine) |-> B(mine[k])] \o
              (LET withfn == SelectSeq(mine, LAMBDA i : HasFn(i)) IN [k \in 1..Len(withfn) |-> Fn(withfn[k])])

(* ---------------- machine layer: __str__ ---------------- *)
RECURSIVE Str(_), StrSeq(_)
Str(i) == <<B(i)>> \o StrSeq(Children(i))
StrSeq(cs) == IF cs = <<>> THEN <<>> ELSE (IF Owns(Head(cs)) THEN <<>> ELSE Str(Head(cs))) \o StrSeq(Tail(cs))
(* footnotes gathered by a file-owning section: walk currentSection upwards to the first unit with a file *)
RECURSIVE Gatherer(_)
Gatherer(i) == IF Owns(i) THEN i ELSE Gatherer(Parent(i))
Footnotes(f) == LET fs == SelectSeq([i \in 1..(N + 1) |-> i - 1], LAMBDA i : HasFn(i) /\ Gatherer(i) = f) IN [k \in 1..Len(fs) |-> Fn(fs[k])]
Written(f) == Str(f) \o Footnotes(f)
Owners == SelectSeq([i \in 1..(N + 1) |-> i - 1], LAMBDA i : Owns(i))

(* ---------------- machine layer: filenames (cacheFilenames in pre-order) ---------------- *)
(* a name is a tuple: <<"index">>, <<"only">>, <<"id", i>> (the label of unit i), <<"title", t>>, <<"sect", n>>;          *)
(* the labels "index" and "sect0001" are spelled like the static name and the first numbered name and so ARE those names *)
LabelName(i) == CASE nodes[i].lab = "own" -> <<"id", i>> [] nodes[i].lab = "index" -> <<"index">> [] nodes[i].lab = "sect1" -> <<"sect", 1>> [] OTHER -> <<>>
RECURSIVE NextFree(_, _)
NextFree(num, issued) == IF <<"sect", num>> \in issued THEN NextFree(num + 1, issued) ELSE num
RECURSIVE Assign(_, _, _, _)
(* os: owners still to name; num; issued; acc: owner -> name *)
Assign(os, num, issued, acc) ==
    IF os = <<>> THEN acc
    ELSE LET i == Head(os) IN
         IF i = 0 THEN Assign(Tail(os), num, issued \cup {IF tmpl = "single" THEN <<"only">> ELSE <<"index">>},
                              acc @@ (0 :> IF tmpl = "single" THEN <<"only">> ELSE <<"index">>))
         ELSE LET first == IF tmpl = "default" THEN LabelName(i) ELSE IF tmpl = "plain" THEN <<>> ELSE <<"title", nodes[i].title>>
                  n == NextFree(num, issued)          \* a numbered candidate that is taken is skipped, the counter moves on
              IN IF first # <<>> /\ first \notin issued
                 THEN Assign(Tail(os), num, issued \cup {first}, acc @@ (i :> first))
                 ELSE Assign(Tail(os), n + 1, issued \cup {<<"sect", n>>}, acc @@ (i :> <<"sect", n>>))
Names == Assign(Owners, 1, {}, <<>>)

(* ---------------- links ---------------- *)
(* Renderable.url of unit b: its own file, or the file of the nearest file-owning ancestor plus its id *)
Url(b) == IF Owns(b) THEN [file |-> Names[b], frag |-> FALSE, id |-> b] ELSE [file |-> Names[FileOf(b)], frag |-> TRUE, id |-> b]
(* an equation never owns a file: the file of the unit it is in plus its id *)
EqUrl(b) == [file |-> Names[FileOf(b)], frag |-> TRUE, id |-> b]
Target(r) == IF r.kind = "sec" THEN Url(r.to) ELSE EqUrl(r.to)

(* the number \ref shows: the path of sibling positions (section counters reset by their parent) *)
RECURSIVE Num(_)
SibPos(i) == Cardinality({j \in 1..i : Parent(j) = Parent(i)})
Num(i) == IF i = 0 THEN <<>> ELSE Num(Parent(i)) \o <<SibPos(i)>>

(* ---------------- table of contents ---------------- *)
(* SectionUtils.tableofcontents of the document node, as every page of the default theme prints it: nothing below depth 1 or  *)
(* when no child of the document owns a file; children that own no file are listed only with toc-non-files; the nested levels *)
(* come from fulltableofcontents (same filter, no further condition) cut at toc-depth by the TableOfContents proxy.           *)
Listed(c, nonfiles) == nonfiles \/ Owns(c)
RECURSIVE TocBelow(_, _, _, _)
(* the entries below unit p, at proxy level lvl, flattened in document order *)
TocBelow(p, lvl, depth, nonfiles) ==
    IF lvl > depth THEN <<>>
    ELSE LET cs == SelectSeq(Children(p), LAMBDA c : Listed(c, nonfiles))
             RECURSIVE Each(_)
             Each(q) == IF q = <<>> THEN <<>> ELSE <<Head(q)>> \o TocBelow(Head(q), lvl + 1, depth, nonfiles) \o Each(Tail(q))
         IN Each(cs)
Toc(depth, nonfiles) == IF depth < 1 \/ ~(\E c \in 1..N : Parent(c) = 0 /\ Owns(c)) THEN <<>> ELSE TocBelow(0, 1, depth, nonfiles)
TocDepths == 0..3

(* SectionUtils.links: previous / next among the units that own a file, in document order; up = the parent unit *)
Pos(f) == CHOOSE k \in 1..Len(Owners) : Owners[k] = f
Nav(f) == [prev |-> IF Pos(f) = 1 THEN <<>> ELSE Names[Owners[Pos(f) - 1]],
           next |-> IF Pos(f) = Len(Owners) THEN <<>> ELSE Names[Owners[Pos(f) + 1]],
           up   |-> IF f = 0 THEN <<>> ELSE Names[Parent(f)]]

-----------------------------------------------------------------------------
MachineIsRule == done => \A f \in 0..N : Owns(f) => Written(f) = Content(f)
EveryWordOnceInOneFile == done => \A i \in 0..N :
    Cardinality({f \in 0..N : Owns(f) /\ \E k \in 1..Len(Written(f)) : Written(f)[k] = B(i)}) = 1
UnitsAtOrAboveLevelOwnFile == done => \A i \in 1..N : (Lvl(i) <= EffSplit) <=> Owns(i)
NamesDistinct == done => \A a, b \in 0..N : (Owns(a) /\ Owns(b) /\ a # b) => Names[a] # Names[b]
(* every reference lands: the file of its url is produced and, for a fragment, the unit with that id is written there *)
(* navigation is a walk through all files: following next from the first file visits every file once *)
NavIsAChain == done => /\ Nav(0).prev = <<>>
                       /\ \A k \in 1..(Len(Owners) - 1) : Nav(Owners[k]).next = Names[Owners[k + 1]] /\ Nav(Owners[k + 1]).prev = Names[Owners[k]]
                       /\ \A f \in 1..N : Owns(f) => Owns(Parent(f))
(* with toc-depth at least the split level the table of contents alone leads from the start page to every file *)
TocReachesEveryFile == done => \A d \in TocDepths : (d >= 3 /\ N >= 1 /\ Owns(1)) =>
                                  \A f \in 1..N : Owns(f) => \E k \in 1..Len(Toc(d, FALSE)) : Toc(d, FALSE)[k] = f
(* every entry is a unit at proxy depth <= toc-depth and, without toc-non-files, owns a file *)
TocEntriesOwnFiles == done => \A d \in TocDepths : \A k \in 1..Len(Toc(d, FALSE)) : Owns(Toc(d, FALSE)[k])
LinksLand == done => \A r \in 1..Len(refs) :
    LET u == Target(refs[r]) IN
    /\ \E f \in 0..N : Owns(f) /\ Names[f] = u.file /\ (u.frag => \E k \in 1..Len(Written(f)) : Written(f)[k] = B(u.id))

Emit == done => PrintT(<<"BEH", ToJson([nodes |-> nodes, docfn |-> docfn, split |-> split, tmpl |-> tmpl, refs |-> refs,
                                        files |-> [k \in 1..Len(Owners) |-> [node |-> Owners[k], name |-> Names[Owners[k]], content |-> Written(Owners[k]), nav |-> Nav(Owners[k])]],
                                        urls |-> [r \in 1..Len(refs) |-> Target(refs[r])],
                                        shown |-> [r \in 1..Len(refs) |-> IF refs[r].kind = "sec" THEN Num(refs[r].to) ELSE <<refs[r].to + 1>>],
                                        nums |-> [i \in 1..N |-> Num(i)],
                                        tocs |-> [d \in 1..4 |-> [depth |-> d - 1, files |-> Toc(d - 1, FALSE), all |-> Toc(d - 1, TRUE)]],
                                        allurls |-> [i \in 1..N |-> Url(i)], homes |-> [i \in 1..(N + 1) |-> Names[FileOf(i - 1)]]])>>)
=============================================================================

------------------------------ MODULE Paragraphs ------------------------------
(***************************************************************************)
(* C07 / C10 -- grouping the content of a node into paragraphs             *)
(* (Macro.paragraphs, called by every environment, section and list item   *)
(* after it has absorbed its content).                                     *)
(*                                                                         *)
(* The content is a sequence of items of five kinds:                       *)
(*   "t" inline material (a word)          "w" white space only            *)
(*   "p" a paragraph break (\par element)  "b" a block-level element       *)
(*   "s" an element of section level that holds no content (\printindex)   *)
(* Machine layer: the loop of paragraphs() statement by statement -- a     *)
(* fresh paragraph is opened first; a "p" item becomes the current         *)
(* paragraph; a block item gets a paragraph of its own and a fresh one is  *)
(* opened after it; a section-level item is kept outside and (repaired)    *)
(* a fresh paragraph is opened after it or (as built) grouping stops       *)
(* there; inline items go into the current paragraph; afterwards           *)
(* paragraphs that are empty or hold white space only are removed.         *)
(* Rule layer: cut the sequence at every "p", "b" and "s"; each run of     *)
(* inline items that contains a word is one paragraph, each block item is  *)
(* alone in a paragraph, each section-level item stands for itself.        *)
(***************************************************************************)
EXTENDS Naturals, Sequences, FiniteSets, TLC, Json

CONSTANTS MaxItems,
          ContinueAfterSection   \* TRUE: grouping goes on after a section-level item (repaired); FALSE: it stops there (as built, F39)

Kinds == {"t", "w", "p", "b", "s"}
Inline == {"t", "w"}

VARIABLES items, force
vars == <<items, force>>
Init == items = <<>> /\ force \in BOOLEAN
Add == Len(items) < MaxItems /\ (\E k \in Kinds : items' = Append(items, k)) /\ UNCHANGED force
Next == Add
Spec == Init /\ [][Next]_vars

(* the result: a sequence of top-level nodes, [k |-> "par", c |-> content] or [k |-> kind, c |-> <<>>] for items left outside *)
Par(c) == [k |-> "par", c |-> c]
Out(k) == [k |-> k, c |-> <<>>]
HasPar == \E i \in 1..Len(items) : items[i] = "p"

(* ---------------- machine layer ---------------- *)
RECURSIVE Loop(_, _)
(* rest: items still in self ; nn: newnodes *)
AppendToLast(nn, x) == [nn EXCEPT ![Len(nn)].c = Append(@, x)]
Loop(rest, nn) ==
    IF rest = <<>> THEN [nn |-> nn, left |-> <<>>]
    ELSE LET it == Head(rest) IN
         IF it = "p" THEN Loop(Tail(rest), Append(nn, Par(<<>>)))
         ELSE IF it = "s" THEN IF ContinueAfterSection THEN Loop(Tail(rest), Append(Append(nn, Out("s")), Par(<<>>)))
                               ELSE [nn |-> Append(nn, Out("s")), left |-> Tail(rest)]           \* break: the rest stays where it is
         ELSE IF it = "b" THEN Loop(Tail(rest), Append(Append(nn, Par(<<"b">>)), Par(<<>>)))
         ELSE Loop(Tail(rest), AppendToLast(nn, it))
(* paragraphs that are empty or white space only are filtered out *)
Blank(n) == n.k = "par" /\ \A i \in 1..Len(n.c) : n.c[i] = "w"
Machine == IF ~HasPar /\ ~force THEN [i \in 1..Len(items) |-> Out(items[i])]           \* nothing to group: content only normalized
           ELSE LET r == Loop(items, <<Par(<<>>)>>)
                    all == r.nn \o [i \in 1..Len(r.left) |-> Out(r.left[i])]
                IN SelectSeq(all, LAMBDA n : ~Blank(n))

(* ---------------- rule layer ---------------- *)
RECURSIVE Cut(_, _)
(* run: the inline items collected since the last cut *)
Flush(run) == IF \E i \in 1..Len(run) : run[i] = "t" THEN <<Par(run)>> ELSE <<>>
Cut(rest, run) ==
    IF rest = <<>> THEN Flush(run)
    ELSE LET it == Head(rest) IN
         IF it \in Inline THEN Cut(Tail(rest), Append(run, it))
         ELSE Flush(run) \o (IF it = "b" THEN <<Par(<<"b">>)>> ELSE IF it = "s" THEN <<Out("s")>> ELSE <<>>) \o Cut(Tail(rest), <<>>)
Rule == IF ~HasPar /\ ~force THEN [i \in 1..Len(items) |-> Out(items[i])] ELSE Cut(items, <<>>)

-----------------------------------------------------------------------------
MachineIsRule == Machine = Rule
(* consequences, stated separately because they are what the property says *)
EveryWordInOneParagraph == (HasPar \/ force) =>
    /\ \A n \in 1..Len(Machine) : Machine[n].k \notin Inline                                        \* no bare inline material is left
    /\ Cardinality({i \in 1..Len(items) : items[i] = "t"})
         = Cardinality({<<n, j>> \in (1..Len(Machine)) \X (1..MaxItems) : j <= Len(Machine[n].c) /\ Machine[n].c[j] = "t"})
NoEmptyParagraph == \A n \in 1..Len(Machine) : Machine[n].k = "par" => Machine[n].c # <<>>
BlockAlone == \A n \in 1..Len(Machine) : (Machine[n].k = "par" /\ \E j \in 1..Len(Machine[n].c) : Machine[n].c[j] = "b") => Machine[n].c = <<"b">>
Emit == PrintT(<<"BEH", ToJson([items |-> items, force |-> force, result |-> Machine])>>)
=============================================================================

--------------------------- MODULE FilenamesRules ---------------------------
(***************************************************************************)
(* Rule layer for the filename generator (property C15).                   *)
(*                                                                         *)
(* Text is Seq(Char) where a Char is a one-character TLA+ string.  A       *)
(* template alternative is a sequence of parts:                            *)
(*   [k |-> "lit", s |-> Seq(Char)]                                        *)
(*   [k |-> "var", name |-> STRING, fmt |-> Nat]  fmt = 0: no word limit   *)
(*   [k |-> "num", w |-> Nat]                      w = 0: no padding       *)
(* A namespace maps variable names to a value or to Unbound.               *)
(*                                                                         *)
(* This module states what the USER relies on (documentation of            *)
(* plasTeX.Filenames and property C15), with no reference to how the       *)
(* generator is programmed.                                                *)
(***************************************************************************)
EXTENDS Naturals, Sequences, FiniteSets, TLC

Unbound == <<"UNBOUND">>
ErrorResult == <<"ERROR">>
NoneResult == <<"NONE">>

Digit(d) == CASE d = 0 -> "0" [] d = 1 -> "1" [] d = 2 -> "2" [] d = 3 -> "3" [] d = 4 -> "4"
              [] d = 5 -> "5" [] d = 6 -> "6" [] d = 7 -> "7" [] d = 8 -> "8" [] d = 9 -> "9"

RECURSIVE Decimal(_)
Decimal(n) == IF n < 10 THEN <<Digit(n)>> ELSE Decimal(n \div 10) \o <<Digit(n % 10)>>

RECURSIVE PadLeft(_, _)
PadLeft(s, w) == IF Len(s) >= w THEN s ELSE PadLeft(<<"0">> \o s, w)

(* $num(w): decimal, zero padded to at least w digits *)
NumText(n, w) == PadLeft(Decimal(n), w)

IsBlank(c) == c = " "

(* Words(v): maximal runs of non-blank characters, in order (str.split()) *)
RECURSIVE WordsAcc(_, _, _)
WordsAcc(v, cur, acc) ==
    IF v = <<>> THEN (IF cur = <<>> THEN acc ELSE Append(acc, cur))
    ELSE IF IsBlank(Head(v))
         THEN WordsAcc(Tail(v), <<>>, IF cur = <<>> THEN acc ELSE Append(acc, cur))
         ELSE WordsAcc(Tail(v), Append(cur, Head(v)), acc)
Words(v) == WordsAcc(v, <<>>, <<>>)

RECURSIVE JoinWords(_)
JoinWords(ws) == IF ws = <<>> THEN <<>>
                 ELSE IF Len(ws) = 1 THEN ws[1]
                 ELSE ws[1] \o <<" ">> \o JoinWords(Tail(ws))

Min(a, b) == IF a < b THEN a ELSE b

(* first n words joined by single blanks; n = 0 means "no limit": value as is *)
LimitWords(v, n) == IF n = 0 THEN v
                    ELSE LET ws == Words(v) IN JoinWords(SubSeq(ws, 1, Min(n, Len(ws))))

(* forbidden characters of a VALUE replaced by the substitute text *)
RECURSIVE CharSub(_, _, _)
CharSub(v, bad, repl) == IF v = <<>> THEN <<>>
                         ELSE (IF Head(v) \in bad THEN repl ELSE <<Head(v)>>) \o CharSub(Tail(v), bad, repl)

(* variables an alternative needs from the caller *)
NeedVars(alt) == {alt[i].name : i \in {j \in 1..Len(alt) : alt[j].k = "var"}}
MentionsNum(alt) == \E i \in 1..Len(alt) : alt[i].k = "num"
AllBound(alt, ns) == \A v \in NeedVars(alt) : ns[v] # Unbound

(* The documented rendering of one part: word limit first, then forbidden characters *)
RulePart(p, ns, num, bad, repl) ==
    CASE p.k = "lit" -> p.s
      [] p.k = "num" -> NumText(num, p.w)
      [] p.k = "var" -> CharSub(LimitWords(ns[p.name], p.fmt), bad, repl)

RECURSIVE RuleRender(_, _, _, _, _)
RuleRender(alt, ns, num, bad, repl) ==
    IF alt = <<>> THEN <<>>
    ELSE RulePart(Head(alt), ns, num, bad, repl) \o RuleRender(Tail(alt), ns, num, bad, repl)

(* os.path.splitext: an extension exists iff the last path component has a dot
   that is preceded by at least one non-dot character of that component *)
LastSlash(s) == LET I == {i \in 1..Len(s) : s[i] = "/"} IN IF I = {} THEN 0 ELSE CHOOSE i \in I : \A j \in I : j <= i
Base(s) == SubSeq(s, LastSlash(s) + 1, Len(s))
HasExt(s) == LET b == Base(s) IN
             \E d \in 1..Len(b) : b[d] = "." /\ (\A j \in (d+1)..Len(b) : b[j] # ".")
                                  /\ (\E j \in 1..(d-1) : b[j] # ".")
AddExt(s, ext) == IF HasExt(s) THEN s ELSE s \o ext

RuleName(alt, ns, num, bad, repl, ext) == AddExt(RuleRender(alt, ns, num, bad, repl), ext)

(***************************************************************************)
(* The contract for one request, as a function of the abstract generator   *)
(* state  [si, num, issued]  and the namespace the caller presents.        *)
(* A candidate list is scanned in template order; candidates with unbound  *)
(* variables are passed over; a numbered candidate that is issued or found *)
(* taken advances num; the first fresh candidate is issued.  When a whole  *)
(* scan of the wildcard issues nothing the scan is repeated (numbers have  *)
(* moved on) a bounded number of times, then an error is reported.         *)
(* Result: [res, si, num, issued].                                         *)
(***************************************************************************)
RECURSIVE RuleScan(_, _, _, _, _, _, _, _)
RuleScan(alts, i, ns, num, issued, bad, repl, ext) ==
    (* scan alternatives i..Len(alts); returns [found, res, num] *)
    IF i > Len(alts) THEN [found |-> FALSE, res |-> ErrorResult, num |-> num]
    ELSE LET alt == alts[i] IN
         IF ~AllBound(alt, ns) THEN RuleScan(alts, i + 1, ns, num, issued, bad, repl, ext)
         ELSE LET name == RuleName(alt, ns, num, bad, repl, ext)
                  num2 == IF MentionsNum(alt) THEN num + 1 ELSE num
              IN IF name \notin issued THEN [found |-> TRUE, res |-> name, num |-> num2]
                 ELSE RuleScan(alts, i + 1, ns, num2, issued, bad, repl, ext)

RECURSIVE RuleWild(_, _, _, _, _, _, _, _)
RuleWild(alts, ns, num, issued, bad, repl, ext, passesLeft) ==
    IF passesLeft = 0 THEN [res |-> ErrorResult, num |-> num]
    ELSE LET r == RuleScan(alts, 1, ns, num, issued, bad, repl, ext) IN
         IF r.found THEN [res |-> r.res, num |-> r.num]
         ELSE IF r.num = num THEN [res |-> ErrorResult, num |-> num]   \* nothing can change: error
         ELSE RuleWild(alts, ns, r.num, issued, bad, repl, ext, passesLeft - 1)

(* Static stage: each static template is offered once, in order; one that cannot be
   formed (unbound variable) or is taken is passed over for good. *)
RECURSIVE RuleStatic(_, _, _, _, _, _, _, _)
RuleStatic(statics, si, ns, num, issued, bad, repl, ext) ==
    IF si > Len(statics) THEN [found |-> FALSE, res |-> ErrorResult, si |-> si, num |-> num]
    ELSE LET alt == statics[si] IN
         IF ~AllBound(alt, ns) THEN RuleStatic(statics, si + 1, ns, num, issued, bad, repl, ext)
         ELSE LET name == RuleName(alt, ns, num, bad, repl, ext)
                  num2 == IF MentionsNum(alt) THEN num + 1 ELSE num
              IN IF name \notin issued THEN [found |-> TRUE, res |-> name, si |-> si + 1, num |-> num2]
                 ELSE RuleStatic(statics, si + 1, ns, num2, issued, bad, repl, ext)

=============================================================================

------------------------------- MODULE Config -------------------------------
(***************************************************************************)
(* C16 -- configuration values come from defaults, files and command line  *)
(* in that order.                                                          *)
(*                                                                         *)
(* One representative option per TYPE.  A layering says, for each source   *)
(* (0-3 configuration files in order, then the command line), whether the  *)
(* option is present and with what text.  The machine layer applies the    *)
(* sources as plasTeX.client.main does (config.read(files) then            *)
(* updateFromDict(parsed command line)), with each type's setFromString /  *)
(* updateFromDict written as the code does it.  The rule layer states the  *)
(* documented precedence as a fold.                                        *)
(*                                                                         *)
(* Abstract values.  str/int/float: small naturals (concretised by the     *)
(* harness as "s<n>", n, n/2).  dict keys are strings.  bool: file texts are indices into          *)
(* BoolWords.  list: sequences of naturals (items).  dict: functions       *)
(* key -> natural.  Interpolating strings: sequences of parts              *)
(*   [k |-> "lit", n] | [k |-> "ref", n (option index)] | [k |-> "pct"].   *)
(***************************************************************************)
EXTENDS Naturals, Sequences, FiniteSets, TLC, Json

CONSTANTS Types,        \* subset of {"str","int","float","bool","list","dict","interp"}
          MaxFiles,
          BoolParsed    \* TRUE: booleans in files are parsed as words (repaired); FALSE: bool(string), i.e.
                        \* every non-empty text means TRUE (as built, F1)

Absent == [p |-> FALSE, v |-> 0, l |-> <<>>, d |-> <<>>, t |-> <<>>]
Scalar(n) == [p |-> TRUE, v |-> n, l |-> <<>>, d |-> <<>>, t |-> <<>>]
ListV(s) == [p |-> TRUE, v |-> 0, l |-> s, d |-> <<>>, t |-> <<>>]
DictV(f) == [p |-> TRUE, v |-> 0, l |-> <<>>, d |-> f, t |-> <<>>]
TmplV(n, s) == [p |-> TRUE, v |-> n, l |-> <<>>, d |-> <<>>, t |-> s]     \* interp: option index n gets template s

(* truth value of the words a file may use; index = position in the harness's word list:
   1 yes 2 no 3 true 4 false 5 on 6 off 7 "1" 8 "0" 9 Yes 10 NO 11 True 12 OFF *)
BoolWordMeaning == <<TRUE, FALSE, TRUE, FALSE, TRUE, FALSE, TRUE, FALSE, TRUE, FALSE, TRUE, FALSE>>

FileChoices(t) ==
    CASE t \in {"str", "int", "float"} -> {Absent, Scalar(1), Scalar(2)}
      [] t = "bool" -> {Absent} \cup {Scalar(i) : i \in 1..Len(BoolWordMeaning)}
      [] t = "list" -> {Absent, ListV(<<1>>), ListV(<<2, 3>>), ListV(<<>>)}
      [] t = "dict" -> {Absent, DictV("k1" :> 1), DictV("k1" :> 2 @@ "k2" :> 1), DictV("k2" :> 3)}
      [] t = "interp" -> {Absent, TmplV(1, <<[k |-> "lit", n |-> 1]>>),
                                  TmplV(2, <<[k |-> "ref", n |-> 1], [k |-> "pct", n |-> 0]>>),
                                  TmplV(1, <<[k |-> "lit", n |-> 2], [k |-> "pct", n |-> 0]>>)}

(* command line: bool 1 = enabling flag, 2 = disabling flag; list: the items of all occurrences *)
CmdChoices(t) ==
    CASE t \in {"str", "int", "float"} -> {Absent, Scalar(3), Scalar(1)}
      [] t = "bool" -> {Absent, Scalar(1), Scalar(2)}
      [] t = "list" -> {Absent, ListV(<<4>>), ListV(<<1, 5>>)}
      [] t = "dict" -> {Absent, DictV("k1" :> 4), DictV("k3" :> 1 @@ "k2" :> 2)}
      [] t = "interp" -> {Absent, TmplV(1, <<[k |-> "lit", n |-> 3]>>),
                                  TmplV(3, <<[k |-> "ref", n |-> 2], [k |-> "ref", n |-> 1]>>)}

Default(t) ==
    CASE t \in {"str", "int", "float"} -> Scalar(0)
      [] t = "bool" -> Scalar(0)            \* 0 = FALSE, 1 = TRUE ; the harness also runs default TRUE options
      [] t = "list" -> ListV(<<>>)
      [] t = "dict" -> DictV(<<>>)
      [] t = "interp" -> [p |-> TRUE, v |-> 0, l |-> <<>>, d |-> <<>>,
                          t |-> <<>>]

VARIABLES ty, files, cmd,     \* the layering (chosen in Init)
          val,                \* current value of the option (interp: function option index -> template)
          pc,                 \* 0 = defaults loaded; i = file i read; MaxFiles+1.. = command line applied
          rbh                 \* ghost: what reading every option back gives after each source was applied
vars == <<ty, files, cmd, val, pc, rbh>>

Merge(f, g) == [x \in (DOMAIN f) \cup (DOMAIN g) |-> IF x \in DOMAIN g THEN g[x] ELSE f[x]]

InterpDefault == (1 :> <<[k |-> "lit", n |-> 0]>>) @@ (2 :> <<[k |-> "lit", n |-> 9]>>) @@ (3 :> <<>>)

RECURSIVE Expand(_, _, _)
Expand(d, tmpl, fuel) ==
    IF tmpl = <<>> THEN <<>>
    ELSE LET h == Head(tmpl) IN
         (CASE h.k = "lit" -> <<h.n>>
            [] h.k = "pct" -> <<100>>                                   \* 100 stands for the character %
            [] h.k = "ref" -> IF fuel = 0 THEN <<999>> ELSE Expand(d, d[h.n], fuel - 1))
         \o Expand(d, Tail(tmpl), fuel)

(* reading back: %(name)s is replaced by the CURRENT value of the named option, %% by % *)
ReadBackOf(t, v) == IF t = "interp" THEN [i \in 1..3 |-> Expand(v.d, v.d[i], 4)] ELSE <<>>

InitVal(t) == IF t = "interp" THEN [p |-> TRUE, v |-> 0, l |-> <<>>, d |-> InterpDefault, t |-> <<>>] ELSE Default(t)

(* ---- machine: one source applied to the current value, per type, as the code does ---- *)
FromFile(t, cur, x) ==
    IF ~x.p THEN cur
    ELSE CASE t \in {"str", "int", "float"} -> Scalar(x.v)                                 \* valueType()(string)
           [] t = "bool" -> Scalar(IF BoolParsed THEN (IF BoolWordMeaning[x.v] THEN 1 ELSE 0)
                                   ELSE 1)                                                  \* bool("no") is True
           [] t = "list" -> ListV(cur.l \o x.l)                                             \* value.extend(shlex.split())
           [] t = "dict" -> DictV(Merge(cur.d, x.d))                                        \* set(key, value) per entry
           [] t = "interp" -> [cur EXCEPT !.d = Merge(cur.d, x.v :> x.t)]

FromCmd(t, cur, x) ==
    IF ~x.p THEN cur                                                                        \* argparse gives None
    ELSE CASE t \in {"str", "int", "float"} -> Scalar(x.v)
           [] t = "bool" -> Scalar(IF x.v = 1 THEN 1 ELSE 0)                                \* store_true / store_false
           [] t = "list" -> ListV(cur.l \o x.l)
           [] t = "dict" -> DictV(Merge(cur.d, x.d))
           [] t = "interp" -> [cur EXCEPT !.d = Merge(cur.d, x.v :> x.t)]

Init == /\ ty \in Types
        /\ files \in UNION {[1..n -> FileChoices(ty)] : n \in 0..MaxFiles}
        /\ cmd \in CmdChoices(ty)
        /\ val = InitVal(ty)
        /\ pc = 0
        /\ rbh = <<>>

ReadFile == /\ pc < Len(files)
            /\ val' = FromFile(ty, val, files[pc + 1])
            /\ pc' = pc + 1
            /\ rbh' = Append(rbh, ReadBackOf(ty, val'))
            /\ UNCHANGED <<ty, files, cmd>>

CommandLine == /\ pc = Len(files)
               /\ val' = FromCmd(ty, val, cmd)
               /\ pc' = pc + 1
               /\ rbh' = Append(rbh, ReadBackOf(ty, val'))
               /\ UNCHANGED <<ty, files, cmd>>

Next == ReadFile \/ CommandLine
Spec == Init /\ [][Next]_vars

Done == pc = Len(files) + 1

-----------------------------------------------------------------------------
(* rule layer: the documented precedence, as a function of the layering *)
Sources == files \o <<cmd>>
PresentIdx == {i \in 1..Len(Sources) : Sources[i].p}
Last == CHOOSE i \in PresentIdx : \A j \in PresentIdx : j <= i

RECURSIVE CatLists(_), UnionDicts(_)
CatLists(s) == IF s = <<>> THEN <<>> ELSE (IF Head(s).p THEN Head(s).l ELSE <<>>) \o CatLists(Tail(s))
UnionDicts(s) == IF s = <<>> THEN <<>> ELSE Merge(IF Head(s).p THEN Head(s).d ELSE <<>>, UnionDicts(Tail(s)))
RECURSIVE RevUnion(_)
RevUnion(s) == IF s = <<>> THEN <<>> ELSE Merge(RevUnion(SubSeq(s, 1, Len(s) - 1)), IF s[Len(s)].p THEN s[Len(s)].d ELSE <<>>)

RuleBool == IF PresentIdx = {} THEN 0
            ELSE IF Last = Len(Sources) THEN (IF cmd.v = 1 THEN 1 ELSE 0)
            ELSE IF BoolWordMeaning[Sources[Last].v] THEN 1 ELSE 0

RuleFinal ==
    CASE ty \in {"str", "int", "float"} -> IF PresentIdx = {} THEN Scalar(0) ELSE Scalar(Sources[Last].v)
      [] ty = "bool" -> Scalar(RuleBool)
      [] ty = "list" -> ListV(CatLists(Sources))                    \* extends: default ++ files in order ++ command line
      [] ty = "dict" -> DictV(RevUnion(Sources))                    \* right-biased union
      [] ty = "interp" -> [p |-> TRUE, v |-> 0, l |-> <<>>, t |-> <<>>,
                           d |-> LET set == [i \in 1..3 |-> {j \in PresentIdx : Sources[j].v = i}] IN
                                 [i \in 1..3 |-> IF set[i] = {} THEN InterpDefault[i]
                                                 ELSE Sources[CHOOSE j \in set[i] : \A m \in set[i] : m <= j].t]]

Precedence == Done => val = RuleFinal

ReadBack == ReadBackOf(ty, val)

(* interpolation sees the final values, also of options that were overridden after the reference was written *)
InterpCurrent == (Done /\ ty = "interp") => ReadBack = [i \in 1..3 |-> Expand(RuleFinal.d, RuleFinal.d[i], 4)]

Emit == Done => PrintT(<<"BEH", ToJson([ty |-> ty, files |-> files, cmd |-> cmd, final |-> val, readback |-> ReadBack, rbh |-> rbh])>>)
=============================================================================

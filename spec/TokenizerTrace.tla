--------------------------- MODULE TokenizerTrace ---------------------------
(***************************************************************************)
(* Trace validation for C01: each line of TRACE_FILE is one run of the     *)
(* real Tokenizer on a generated input under a generated category table    *)
(* with a schedule of mid-stream \catcode changes:                         *)
(*  {"inp":[..], "cat":{char:code}, "sets":[[ntokens,char,code],..],       *)
(*   "out":[{"cc":..,"tx":[..]},..], "st":"N"|"M"|"S"}                     *)
(* TLC re-executes the Tokenizer machine on the same input and schedule;   *)
(* every prefix of the machine's output must be a prefix of the recorded   *)
(* token list and the final lists and states must coincide.                *)
(***************************************************************************)
EXTENDS Tokenizer, IOUtils, TLCExt

VARIABLE tid
Traces == ndJsonDeserialize(IOEnv.TRACE_FILE)
T == Traces[tid]

TraceInit == /\ tid \in 1..Len(Traces)
             /\ inp = T.inp /\ tbl0 = [id |-> "trace", cat |-> T.cat]
             /\ src = T.inp /\ cbuf = <<>> /\ st = N /\ out = <<>> /\ prevPar = FALSE
             /\ cat = T.cat /\ nset = 0 /\ sets = <<>> /\ je = TRUE /\ done = FALSE

(* the schedule is followed exactly: a change due now must be taken before the next token *)
Due == nset < Len(T.sets) /\ T.sets[nset + 1][1] = Len(out) /\ je
TraceSetCat == /\ Due
               /\ LET e == T.sets[nset + 1] IN
                    /\ ~done /\ cat' = [cat EXCEPT ![e[2]] = e[3]] /\ nset' = nset + 1
                    /\ sets' = Append(sets, e)
               /\ UNCHANGED <<inp, tbl0, src, cbuf, st, out, prevPar, je, done>>
TraceNext == /\ UNCHANGED tid
             /\ IF Due THEN TraceSetCat ELSE TokenStep

IsPrefix(a, b) == Len(a) <= Len(b) /\ SubSeq(b, 1, Len(a)) = a
PrefixOfRecorded == IsPrefix(out, T.out)
FinalMatches == done => (out = T.out /\ st = T.st /\ nset = Len(T.sets))
TraceNeverStuck == ~done => (Due \/ ENABLED TokenStep)
=============================================================================

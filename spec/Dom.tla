--------------------------------- MODULE Dom ---------------------------------
(***************************************************************************)
(* C06 -- the document tree stays a consistent tree under DOM edits.       *)
(*                                                                         *)
(* Machine layer: plasTeX.DOM.Node editing methods, one action per public  *)
(* method, each written as the composition of primitive list steps the     *)
(* code performs (remove-first, running-index insertion of fragment        *)
(* children, insert+pop for item assignment, stale parent links of removed *)
(* nodes, fragments as carriers).                                          *)
(* Rule layer: the ghost variable `model`, updated by the obvious list     *)
(* operation of each method (what a user of a list-of-lists expects).      *)
(***************************************************************************)
EXTENDS Naturals, Sequences, FiniteSets, TLC, Json

CONSTANTS Elems,      \* element nodes (strings); "R" is the root element attached to the document
          Texts,      \* text nodes
          Frags,      \* document fragments
          Tag,        \* Elems -> tag name
          Txt0,       \* Texts -> initial content (Seq of one-char strings)
          MaxOps,
          Ops         \* set of operation names enabled in this configuration

None == "None"
Nodes == Elems \cup Texts \cup Frags

VARIABLES kids,    \* Node -> Seq(Node)           (childNodes)
          parent,  \* Node -> Node \cup {None}    (parentNode, including stale links)
          txt,     \* Texts -> content
          used,    \* fragments already used as an argument (carriers)
          model,   \* ghost: the plain list-of-lists model (rule layer)
          nops,    \* number of operations so far
          hist     \* ghost: operations so far, for behaviour export

vars == <<kids, parent, txt, used, model, nops, hist>>
view == <<kids, parent, txt, used, model, nops>>
\* finer view: also the operation that produced the state, so that every distinct (operation, result)
\* pair is explored and exported once
LastOp == IF hist = <<>> THEN <<>> ELSE LET e == hist[Len(hist)] IN <<e.op, e.r, e.x, e.i, e.y>>
viewop == <<kids, parent, txt, used, model, nops, LastOp>>

Range(s) == {s[i] : i \in 1..Len(s)}

(* ---------- list helpers (0-based positions as in Python) ---------- *)
(* list.insert clamps a position beyond the end to the end *)
Clamp(s, i) == IF i > Len(s) THEN Len(s) ELSE i
InsertAt(s, i, x) == SubSeq(s, 1, Clamp(s, i)) \o <<x>> \o SubSeq(s, Clamp(s, i) + 1, Len(s))
InsertSeqAt(s, i, xs) == SubSeq(s, 1, Clamp(s, i)) \o xs \o SubSeq(s, Clamp(s, i) + 1, Len(s))
DeleteAt(s, i) == SubSeq(s, 1, i) \o SubSeq(s, i + 2, Len(s))       \* delete 0-based position i
IndexOf(s, x) == CHOOSE i \in 0..(Len(s) - 1) : s[i + 1] = x /\ \A j \in 0..(i - 1) : s[j + 1] # x
Without(s, x) == IF x \in Range(s) THEN DeleteAt(s, IndexOf(s, x)) ELSE s

(* ---------- structure ---------- *)
RECURSIVE Desc(_, _)
Desc(k, n) == UNION {{c} \cup Desc(k, c) : c \in Range(k[n])}       \* proper descendants

Listers(n) == {m \in Nodes : n \in Range(kids[m]) /\ (m \notin Frags \/ m \notin used)}
Detached(n) == Listers(n) = {}

IsFrag(n) == n \in Frags
Items(x) == IF IsFrag(x) THEN kids[x] ELSE <<x>>

(* the parent a receiver gives to what it adopts (fragments pass on their own parent) *)
Giver(r) == IF IsFrag(r) THEN parent[r] ELSE r

Receivers == Elems \cup (Frags \ used)

(* x may be given to r as a new child: detached or an unused fragment, not r, no cycle *)
Eligible(r, x) ==
    /\ x # r /\ x # "R"
    /\ r \notin Desc(kids, x)
    /\ \/ x \in (Elems \cup Texts) /\ Detached(x)
       \/ x \in Frags /\ x \notin used /\ Detached(x)

(* ---------- primitive machine steps, as functions on <<kids, parent>> ---------- *)
(* Node.insert(i, x): fragment children one by one with a running index *)
RECURSIVE InsertItems(_, _, _, _, _)
InsertItems(k, p, r, i, items) ==
    IF items = <<>> THEN <<k, p>>
    ELSE InsertItems([k EXCEPT ![r] = InsertAt(k[r], i, Head(items))],
                     [p EXCEPT ![Head(items)] = IF IsFrag(r) THEN p[r] ELSE r],
                     r, i + 1, Tail(items))

MInsert(k, p, r, i, x) ==
    LET kp == InsertItems(k, p, r, i, IF IsFrag(x) THEN k[x] ELSE <<x>>) IN
    IF IsFrag(x) THEN <<kp[1], [kp[2] EXCEPT ![x] = IF IsFrag(r) THEN p[r] ELSE r]>> ELSE kp

MAppend(k, p, r, x) == MInsert(k, p, r, Len(k[r]), x)

MPop(k, p, r, i) == <<[k EXCEPT ![r] = DeleteAt(k[r], i)], p>>        \* parent link stays (stale)

MRemove(k, p, r, c) == MPop(k, p, r, IndexOf(k[r], c))

Commit(kp) ==
    /\ nops < MaxOps
    /\ kids' = kp[1] /\ parent' = kp[2]
    /\ nops' = nops + 1

(* projection compared with the implementation; the child list a carrier fragment keeps after it
   has been used is of no interest and masked *)
Proj(k, p, t, u) == [kids |-> [n \in Nodes |-> IF n \in u THEN <<>> ELSE k[n]], parent |-> p, txt |-> t]

(* last conjunct of every action: log the operation with the projection of the new state *)
Log(op) == hist' = Append(hist, op @@ [post |-> Proj(kids', parent', txt', used')])

UseFrag(x) == used' = IF IsFrag(x) THEN used \cup {x} ELSE used

(* ---------- actions ---------- *)
DoAppend(r, x) ==
    /\ "append" \in Ops /\ r \in Receivers /\ Eligible(r, x)
    /\ Commit(MAppend(kids, parent, r, x))
    /\ model' = [model EXCEPT ![r] = @ \o Items(x)]
    /\ UseFrag(x) /\ UNCHANGED txt
    /\ Log([op |-> "append", r |-> r, x |-> x, i |-> 0, y |-> None])


DoInsert(r, i, x) ==
    /\ "insert" \in Ops /\ r \in Receivers /\ Eligible(r, x) /\ i \in 0..(Len(kids[r]) + 2)   \* also past the end
    /\ Commit(MInsert(kids, parent, r, i, x))
    /\ model' = [model EXCEPT ![r] = InsertSeqAt(@, i, Items(x))]
    /\ UseFrag(x) /\ UNCHANGED txt
    /\ Log([op |-> "insert", r |-> r, x |-> x, i |-> i, y |-> None])


(* insertBefore / insertAfter / replaceChild: the new child is first removed from the
   receiver if it is one of its children (a move) *)
MoveOrNew(r, x) == Eligible(r, x) \/ (x \in Range(kids[r]) /\ x \notin Frags)

DoInsertBefore(r, x, ref) ==
    /\ "insertBefore" \in Ops /\ r \in Receivers /\ ref \in Range(kids[r]) /\ x # ref /\ MoveOrNew(r, x)
    /\ LET kp1 == IF x \in Range(kids[r]) THEN MRemove(kids, parent, r, x) ELSE <<kids, parent>>
           kp2 == MInsert(kp1[1], kp1[2], r, IndexOf(kp1[1][r], ref), x)
       IN Commit(kp2)
    /\ model' = [model EXCEPT ![r] = LET l == Without(@, x) IN InsertSeqAt(l, IndexOf(l, ref), Items(x))]
    /\ UseFrag(x) /\ UNCHANGED txt
    /\ Log([op |-> "insertBefore", r |-> r, x |-> x, i |-> 0, y |-> ref])


DoInsertAfter(r, x, ref) ==
    /\ "insertAfter" \in Ops /\ r \in Receivers /\ ref \in Range(kids[r]) /\ x # ref /\ MoveOrNew(r, x)
    /\ LET kp1 == IF x \in Range(kids[r]) THEN MRemove(kids, parent, r, x) ELSE <<kids, parent>>
           kp2 == MInsert(kp1[1], kp1[2], r, IndexOf(kp1[1][r], ref) + 1, x)
       IN Commit(kp2)
    /\ model' = [model EXCEPT ![r] = LET l == Without(@, x) IN InsertSeqAt(l, IndexOf(l, ref) + 1, Items(x))]
    /\ UseFrag(x) /\ UNCHANGED txt
    /\ Log([op |-> "insertAfter", r |-> r, x |-> x, i |-> 0, y |-> ref])


DoReplaceChild(r, x, old) ==
    /\ "replaceChild" \in Ops /\ r \in Receivers /\ old \in Range(kids[r]) /\ x # old /\ MoveOrNew(r, x)
    /\ LET kp1 == IF x \in Range(kids[r]) THEN MRemove(kids, parent, r, x) ELSE <<kids, parent>>
           j == IndexOf(kp1[1][r], old)
           kp2 == MPop(kp1[1], kp1[2], r, j)
           kp3 == MInsert(kp2[1], kp2[2], r, j, x)
       IN Commit(kp3)
    /\ model' = [model EXCEPT ![r] = LET l == Without(@, x)
                                         j == IndexOf(l, old)
                                     IN SubSeq(l, 1, j) \o Items(x) \o SubSeq(l, j + 2, Len(l))]
    /\ UseFrag(x) /\ UNCHANGED txt
    /\ Log([op |-> "replaceChild", r |-> r, x |-> x, i |-> 0, y |-> old])


DoRemoveChild(r, c) ==
    /\ "removeChild" \in Ops /\ r \in Receivers /\ c \in Range(kids[r])
    /\ Commit(MRemove(kids, parent, r, c))
    /\ model' = [model EXCEPT ![r] = Without(@, c)]
    /\ UNCHANGED <<txt, used>>
    /\ Log([op |-> "removeChild", r |-> r, x |-> c, i |-> 0, y |-> None])


DoPop(r, i) ==
    /\ "pop" \in Ops /\ r \in Receivers /\ i \in 0..(Len(kids[r]) - 1)
    /\ Commit(MPop(kids, parent, r, i))
    /\ model' = [model EXCEPT ![r] = DeleteAt(@, i)]
    /\ UNCHANGED <<txt, used>>
    /\ Log([op |-> "pop", r |-> r, x |-> None, i |-> i, y |-> None])


(* __setitem__: insert(i, node); pop(i+1)  -- or, for a fragment, its children inserted one by
   one at i, i+1, ... and then pop of the displaced old item; the fragment's own parent link
   is not touched on this path *)
DoSetItem(r, i, x) ==
    /\ "setitem" \in Ops /\ r \in Receivers /\ Eligible(r, x) /\ i \in 0..(Len(kids[r]) - 1)
    /\ LET n == Len(Items(x))
           kp1 == InsertItems(kids, parent, r, i, Items(x))
           kp2 == MPop(kp1[1], kp1[2], r, i + n)
       IN Commit(kp2)
    /\ model' = [model EXCEPT ![r] = SubSeq(@, 1, i) \o Items(x) \o SubSeq(@, i + 2, Len(@))]
    /\ UseFrag(x) /\ UNCHANGED txt
    /\ Log([op |-> "setitem", r |-> r, x |-> x, i |-> i, y |-> None])


DoExtend(r, x, y) ==
    /\ "extend" \in Ops /\ r \in Receivers /\ Eligible(r, x) /\ Eligible(r, y) /\ x # y
    /\ x \notin Frags /\ y \notin Frags
    /\ x \notin Desc(kids, y) /\ y \notin Desc(kids, x)
    /\ LET kp1 == MAppend(kids, parent, r, x)
           kp2 == MAppend(kp1[1], kp1[2], r, y)
       IN Commit(kp2)
    /\ model' = [model EXCEPT ![r] = @ \o <<x, y>>]
    /\ UNCHANGED <<txt, used>>
    /\ Log([op |-> "extend", r |-> r, x |-> x, i |-> 0, y |-> y])


(* normalize: adjacent text children are merged (into a NEW node in the code; the model keeps
   the first node of each run as the representative and the harness re-binds identities),
   recursively through element children *)
RECURSIVE MergeRuns(_, _)
(* returns <<newSeq, t>> for a child sequence s under text map t *)
MergeRuns(s, t) ==
    IF s = <<>> THEN <<<<>>, t>>
    ELSE IF Len(s) >= 2 /\ s[1] \in Texts /\ s[2] \in Texts
         THEN MergeRuns(<<s[1]>> \o SubSeq(s, 3, Len(s)), [t EXCEPT ![s[1]] = t[s[1]] \o t[s[2]]])
         ELSE LET rest == MergeRuns(Tail(s), t) IN <<<<Head(s)>> \o rest[1], rest[2]>>

RECURSIVE NormAll(_, _, _)
(* normalize node n and, recursively, its non-text children; todo is a sequence of nodes *)
NormAll(k, t, todo) ==
    IF todo = <<>> THEN <<k, t>>
    ELSE LET n == Head(todo)
             m == MergeRuns(k[n], t)
             k2 == [k EXCEPT ![n] = m[1]]
             sub == SelectSeq(m[1], LAMBDA c : c \notin Texts)
         IN NormAll(k2, m[2], sub \o Tail(todo))

DoNormalize(r) ==
    /\ "normalize" \in Ops /\ r \in Receivers /\ nops < MaxOps
    /\ LET kt == NormAll(kids, txt, <<r>>) IN
         /\ kids' = kt[1] /\ txt' = kt[2]
         /\ model' = [n \in Nodes |-> IF n \in Frags /\ n \in used THEN model[n] ELSE kt[1][n]]
    /\ nops' = nops + 1
    /\ UNCHANGED <<parent, used>>
    /\ Log([op |-> "normalize", r |-> r, x |-> None, i |-> 0, y |-> None])

(* observations and error paths: state unchanged *)
Observe(o) == /\ nops < MaxOps /\ nops' = nops + 1
              /\ UNCHANGED <<kids, parent, txt, used, model>>
              /\ Log(o)

DoClone(n, deep) ==
    /\ "clone" \in Ops /\ n \in Elems
    /\ Observe([op |-> IF deep THEN "cloneDeep" ELSE "cloneShallow", r |-> n, x |-> None, i |-> 0, y |-> None])

DoRemoveNotFound(r, c) ==
    /\ "notfound" \in Ops /\ r \in Receivers /\ c \in (Elems \cup Texts) /\ c \notin Range(kids[r]) /\ c # r
    /\ Observe([op |-> "removeChildNotFound", r |-> r, x |-> c, i |-> 0, y |-> None])

DoInsertBeforeNotFound(r, x, ref) ==
    /\ "notfound" \in Ops /\ r \in Receivers /\ Eligible(r, x) /\ x \notin Frags
    /\ ref \in (Elems \cup Texts) /\ ref \notin Range(kids[r]) /\ ref # x
    /\ Observe([op |-> "insertBeforeNotFound", r |-> r, x |-> x, i |-> 0, y |-> ref])

DoPopEmpty(r) ==
    /\ "notfound" \in Ops /\ r \in Receivers /\ kids[r] = <<>>
    /\ Observe([op |-> "popEmpty", r |-> r, x |-> None, i |-> 0, y |-> None])

Init == /\ kids = [n \in Nodes |-> <<>>]
        /\ parent = [n \in Nodes |-> None]
        /\ txt = Txt0
        /\ used = {}
        /\ model = [n \in Nodes |-> <<>>]
        /\ nops = 0
        /\ hist = <<>>

Next == \E r \in Nodes :
          \/ \E x \in Nodes : DoAppend(r, x)
          \/ \E x \in Nodes, i \in 0..6 : DoInsert(r, i, x) \/ DoSetItem(r, i, x)
          \/ \E x \in Nodes, y \in Nodes : \/ DoInsertBefore(r, x, y) \/ DoInsertAfter(r, x, y)
                                           \/ DoReplaceChild(r, x, y) \/ DoExtend(r, x, y)
                                           \/ DoInsertBeforeNotFound(r, x, y)
          \/ \E c \in Nodes : DoRemoveChild(r, c) \/ DoRemoveNotFound(r, c)
          \/ \E i \in 0..4 : DoPop(r, i)
          \/ DoNormalize(r) \/ DoPopEmpty(r)
          \/ \E d \in BOOLEAN : DoClone(r, d)

Spec == Init /\ [][Next]_vars

-----------------------------------------------------------------------------
(* Derived views, as functions of the list model *)
Listed(n) == CHOOSE m \in Listers(n) : TRUE
PosIn(n) == IndexOf(kids[Listed(n)], n)
PrevSib(n) == IF Detached(n) \/ PosIn(n) = 0 THEN None ELSE kids[Listed(n)][PosIn(n)]
NextSib(n) == IF Detached(n) \/ PosIn(n) + 2 > Len(kids[Listed(n)]) THEN None ELSE kids[Listed(n)][PosIn(n) + 2]
FirstChild(n) == IF kids[n] = <<>> THEN None ELSE kids[n][1]
LastChild(n) == IF kids[n] = <<>> THEN None ELSE kids[n][Len(kids[n])]

RECURSIVE Flat(_), FlatSeq(_)
(* document order: a node followed by its descendants *)
Flat(n) == <<n>> \o FlatSeq(kids[n])
FlatSeq(s) == IF s = <<>> THEN <<>> ELSE Flat(Head(s)) \o FlatSeq(Tail(s))

RECURSIVE TextOfSeq(_)
TextOfSeq(s) == IF s = <<>> THEN <<>>
                ELSE (IF Head(s) \in Texts THEN txt[Head(s)] ELSE <<>>) \o TextOfSeq(Tail(s))
TextContent(n) == TextOfSeq(Flat(n))

ByTag(n, tag) == SelectSeq(FlatSeq(kids[n]), LAMBDA c : c \in Elems /\ Tag[c] = tag)

Attached == Range(Flat("R"))
OrderIdx(n) == IndexOf(Flat("R"), n)
(* result of a.compareDocumentPosition(b) for attached a, b *)
ComparePos(a, b) ==
    IF a = b THEN "same"
    ELSE IF a \in Desc(kids, b) THEN "contains"          \* b contains a
    ELSE IF b \in Desc(kids, a) THEN "contained_by"
    ELSE IF OrderIdx(b) < OrderIdx(a) THEN "preceding" ELSE "following"

-----------------------------------------------------------------------------
(* Invariants *)
NonCarrier == {n \in Nodes : ~(n \in Frags /\ n \in used)}

(* every child's parent link names the node that lists it (fragments pass on their own parent) *)
ParentOfChild == \A p \in NonCarrier : \A c \in Range(kids[p]) :
                    parent[c] = IF IsFrag(p) THEN parent[p] ELSE p

(* tree-ness: no node is listed twice, in one list or across lists; no cycles *)
AtMostOnce == /\ \A p \in NonCarrier : \A i, j \in 1..Len(kids[p]) : i # j => kids[p][i] # kids[p][j]
              /\ \A p, q \in NonCarrier : p # q => Range(kids[p]) \cap Range(kids[q]) = {}
              /\ \A n \in Nodes : n \notin Desc(kids, n)

(* machine = rule: the child order is what the plain list model predicts *)
ListModel == \A n \in NonCarrier : kids[n] = model[n]

TextsAreLeaves == \A t \in Texts : kids[t] = <<>>

(* normalization leaves no adjacent text nodes below the normalized node, keeps the text
   content, and is idempotent: stated on the function *)
NormalizeProps ==
    \A r \in Receivers :
       LET kt == NormAll(kids, txt, <<r>>)
           kt2 == NormAll(kt[1], kt[2], <<r>>)
       IN /\ kt2 = kt
          /\ \A n \in {r} \cup (Desc(kt[1], r) \ Texts) :
                \A i \in 1..(Len(kt[1][n]) - 1) : ~(kt[1][n][i] \in Texts /\ kt[1][n][i + 1] \in Texts)

RECURSIVE TextOfSeqIn(_, _, _), FlatIn(_, _), FlatSeqIn(_, _)
FlatIn(k, n) == <<n>> \o FlatSeqIn(k, k[n])
FlatSeqIn(k, s) == IF s = <<>> THEN <<>> ELSE FlatIn(k, Head(s)) \o FlatSeqIn(k, Tail(s))
TextOfSeqIn(t, s, dummy) == IF s = <<>> THEN <<>>
                            ELSE (IF Head(s) \in Texts THEN t[Head(s)] ELSE <<>>) \o TextOfSeqIn(t, Tail(s), dummy)
NormalizeKeepsText ==
    \A r \in Receivers :
       LET kt == NormAll(kids, txt, <<r>>) IN
       TextOfSeqIn(kt[2], FlatIn(kt[1], r), 0) = TextContent(r)

(* sibling navigation is consistent with the lists *)
SiblingsConsistent ==
    \A n \in Nodes : ~Detached(n) =>
        /\ (NextSib(n) # None => PrevSib(NextSib(n)) = n)
        /\ (PrevSib(n) # None => NextSib(PrevSib(n)) = n)

(* document position is a strict total order on attached nodes, consistent with containment *)
PositionConsistent ==
    \A a, b \in Attached : a # b =>
        /\ ComparePos(a, b) = "preceding" <=> ComparePos(b, a) = "following"
        /\ ComparePos(a, b) = "contains" <=> ComparePos(b, a) = "contained_by"

-----------------------------------------------------------------------------
(* Behaviour export: one record per TRANSITION of the (hist-hidden) state graph: the path that
   led to the source state, the operation, and the projection of the target state. *)
Views == [prev |-> [n \in Nodes |-> PrevSib(n)], next |-> [n \in Nodes |-> NextSib(n)],
          first |-> [n \in Nodes |-> FirstChild(n)], last |-> [n \in Nodes |-> LastChild(n)],
          text |-> [n \in Elems |-> TextContent(n)],
          bytag |-> [n \in Elems |-> [p |-> ByTag(n, "p"), q |-> ByTag(n, "q")]],
          order |-> Flat("R")]

EmitState == PrintT(<<"BEH", ToJson([h |-> hist, post |-> Proj(kids, parent, txt, used), views |-> Views,
                                     used |-> used])>>)

=============================================================================

-------------------------------- MODULE Escape --------------------------------
(***************************************************************************)
(* C12 -- rendered HTML never turns document text into markup.             *)
(*                                                                         *)
(* A text is a sequence of symbols: single special characters              *)
(*   "&" "<" ">" "Q" (double quote) ";" "#" "-" "=" "/" "!" "sp" "hi"      *)
(* ("hi" = one character above 127, U+00E9; "hi2" = one beyond the basic plane, U+1D49C) and WORD symbols standing for  *)
(* maximal runs of letters or digits ("x", "amp", "lt", "b", "script",     *)
(* "width", "em", "233", ...), so that entity-like, tag-like and           *)
(* placeholder-like strings are expressible in a handful of symbols.       *)
(*                                                                         *)
(* Machine layer, one operator per stage of the text path:                 *)
(*   Hook          PageTemplate.textDefault: & < > -> entities, no more    *)
(*   Emit(ctx)     what the template does with the string at a position:   *)
(*                 "content" = element content (the hooked string);        *)
(*                 "attr" = a double-quoted attribute value fed from       *)
(*                 title.textContent or from `title | striptags` (both     *)
(*                 give back the RAW characters); AttrEscaped says whether *)
(*                 the template escapes that value (repaired) or not       *)
(*   Placeholder   processFileContent: the image-size placeholder regex    *)
(*                 &amp;(\S+)-(width|height|depth);(?:&amp;([a-z]+);)?     *)
(*                 which for an unknown image rewrites the match to        *)
(*                 &\1-\2; (as built) or leaves it alone (repaired)        *)
(*   High          escape-high-chars: every character > 127 -> &#ddd;      *)
(* Rule layer: Dec, the HTML tokenizer restricted to this alphabet (tag    *)
(* open, attribute end, named references with and without semicolon and    *)
(* the attribute exception, numeric references); ShowsAsText says the      *)
(* decoded output is the text itself and nothing in it became markup.      *)
(***************************************************************************)
EXTENDS Naturals, Sequences, FiniteSets, TLC, Json

CONSTANTS Alphabet,            \* symbols texts are made of
          WordSyms,            \* every symbol that is a run of letters / digits
          DigitSyms,           \* the subset that are runs of digits
          MaxLen,
          Contexts,            \* subset of {"content", "attr"}
          HighModes,           \* subset of BOOLEAN
          AttrEscaped,         \* TRUE: attribute values are escaped by the template (repaired); FALSE: as built
          PlaceholderGuarded   \* TRUE: an unknown image name leaves the text alone (repaired); FALSE: as built

IsWord(c) == c \in WordSyms
IsDigits(c) == c \in DigitSyms
IsLetters(c) == IsWord(c) /\ ~IsDigits(c)

Named == {"amp", "lt", "gt", "quot"}
NamedChar(w) == CASE w = "amp" -> "&" [] w = "lt" -> "<" [] w = "gt" -> ">" [] w = "quot" -> "Q"
NumChar(d) == CASE d = "233" -> "hi" [] d = "119964" -> "hi2" [] d = "34" -> "Q" [] d = "60" -> "<" [] d = "38" -> "&" [] d = "62" -> ">" [] d = "39" -> "'" [] OTHER -> "#" \o d     \* any other character: named by its code

(* ---------------- machine layer ---------------- *)
RECURSIVE Hook(_)
Hook(s) == IF s = <<>> THEN <<>> ELSE
           (CASE Head(s) = "&" -> <<"&", "amp", ";">> [] Head(s) = "<" -> <<"&", "lt", ";">> [] Head(s) = ">" -> <<"&", "gt", ";">> [] OTHER -> <<Head(s)>>) \o Hook(Tail(s))
RECURSIVE EscAttr(_)
EscAttr(s) == IF s = <<>> THEN <<>> ELSE
           (CASE Head(s) = "&" -> <<"&", "amp", ";">> [] Head(s) = "<" -> <<"&", "lt", ";">> [] Head(s) = ">" -> <<"&", "gt", ";">>
              [] Head(s) = "Q" -> <<"&", "#", "34", ";">> [] OTHER -> <<Head(s)>>) \o EscAttr(Tail(s))
Emit(ctx, s) == IF ctx = "content" THEN Hook(s) ELSE IF AttrEscaped THEN EscAttr(s) ELSE s

At(o, i) == IF i >= 1 /\ i <= Len(o) THEN o[i] ELSE "EOF"
Params == {"width", "height", "depth"}
(* ends j of group 1 for a match starting at i: o[i..i+2] = &amp; , o[i+3..j] non-blank, then - param ; *)
Ends(o, i) == {j \in (i + 3)..Len(o) : /\ \A k \in (i + 3)..j : o[k] # "sp"
                                       /\ At(o, j + 1) = "-" /\ At(o, j + 2) \in Params /\ At(o, j + 3) = ";"}
(* the optional unit group (?:&amp;([a-z]+);)? directly after position p (last index of the mandatory part) *)
RECURSIVE LettersRun(_, _)
LettersRun(o, k) == IF IsLetters(At(o, k)) THEN LettersRun(o, k + 1) ELSE k      \* first index after the run
UnitEnd(o, p) == IF At(o, p + 1) = "&" /\ At(o, p + 2) = "amp" /\ At(o, p + 3) = ";" /\ IsLetters(At(o, p + 4)) /\ At(o, LettersRun(o, p + 4)) = ";"
                 THEN LettersRun(o, p + 4) ELSE p
RECURSIVE Place(_, _)
Place(o, i) == IF i > Len(o) THEN <<>>
               ELSE IF At(o, i) = "&" /\ At(o, i + 1) = "amp" /\ At(o, i + 2) = ";" /\ Ends(o, i) # {}
                    THEN LET j == CHOOSE j \in Ends(o, i) : \A m \in Ends(o, i) : m <= j       \* greedy
                             e == UnitEnd(o, j + 3)
                         IN <<"&">> \o SubSeq(o, i + 3, j) \o <<"-", o[j + 2], ";">> \o Place(o, e + 1)
                    ELSE <<o[i]>> \o Place(o, i + 1)
Placeholder(o) == IF PlaceholderGuarded THEN o ELSE Place(o, 1)

RECURSIVE High(_)
High(o) == IF o = <<>> THEN <<>> ELSE (IF Head(o) = "hi" THEN <<"&", "#", "233", ";">> ELSE IF Head(o) = "hi2" THEN <<"&", "#", "119964", ";">> ELSE <<Head(o)>>) \o High(Tail(o))

Out(s, ctx, high) == LET o == Placeholder(Emit(ctx, s)) IN IF high THEN High(o) ELSE o

(* ---------------- rule layer: how a browser reads it ---------------- *)
RECURSIVE Dec(_, _, _)
Cons(c, r) == [text |-> <<c>> \o r.text, markup |-> r.markup]
Dec(ctx, o, i) ==
    IF i > Len(o) THEN [text |-> <<>>, markup |-> FALSE]
    ELSE LET c == o[i] IN
         IF ctx = "attr" /\ c = "Q" THEN [text |-> <<>>, markup |-> TRUE]                       \* the attribute value ends here
         ELSE IF ctx = "content" /\ c = "<" /\ (IsLetters(At(o, i + 1)) \/ At(o, i + 1) \in {"/", "!", "?"})
              THEN [text |-> <<>>, markup |-> TRUE]                                              \* a tag, comment or bogus comment opens
         ELSE IF c = "&" THEN
              IF At(o, i + 1) = "#" /\ IsDigits(At(o, i + 2))
              THEN IF IsDigits(At(o, i + 3)) THEN Cons("#" \o At(o, i + 2) \o At(o, i + 3), Dec(ctx, o, i + 4))
                   ELSE Cons(NumChar(At(o, i + 2)), Dec(ctx, o, IF At(o, i + 3) = ";" THEN i + 4 ELSE i + 3))
              ELSE IF At(o, i + 1) \in Named
              THEN IF At(o, i + 2) = ";" THEN Cons(NamedChar(At(o, i + 1)), Dec(ctx, o, i + 3))
                   ELSE IF ctx = "attr" /\ (IsWord(At(o, i + 2)) \/ At(o, i + 2) = "=") THEN Cons("&", Dec(ctx, o, i + 1))
                   ELSE Cons(NamedChar(At(o, i + 1)), Dec(ctx, o, i + 2))                        \* legacy reference without semicolon
              ELSE Cons("&", Dec(ctx, o, i + 1))
         ELSE Cons(c, Dec(ctx, o, i + 1))
Decode(ctx, o) == Dec(ctx, o, 1)

-----------------------------------------------------------------------------
VARIABLES str, ctx, high
vars == <<str, ctx, high>>
Init == str = <<>> /\ ctx \in Contexts /\ high \in HighModes
Extend == /\ Len(str) < MaxLen
          /\ \E c \in Alphabet : /\ ~(c = "sp" /\ (str = <<>> \/ str[Len(str)] = "sp"))     \* TeX collapses blanks
                                 /\ str' = Append(str, c)
          /\ UNCHANGED <<ctx, high>>
Next == Extend
Spec == Init /\ [][Next]_vars

ShowsAsText == LET d == Decode(ctx, Out(str, ctx, high)) IN d.text = str /\ ~d.markup
HighCharsOnlyChangeBytes == /\ Decode(ctx, Out(str, ctx, TRUE)) = Decode(ctx, Out(str, ctx, FALSE))
                            /\ \A k \in 1..Len(Out(str, ctx, TRUE)) : Out(str, ctx, TRUE)[k] \notin {"hi", "hi2"}
EmitBeh == PrintT(<<"BEH", ToJson([s |-> str, ctx |-> ctx, high |-> high, out |-> Out(str, ctx, high)])>>)
=============================================================================

----------------------------- MODULE EscapeTrace -----------------------------
(***************************************************************************)
(* Trace validation for C12: each line of TRACE_FILE is one emission of    *)
(* the real renderer, {"ctx": "content"|"attr", "raw": [symbols the        *)
(* renderer wrote between the markers], "want": [symbols of the text]}.    *)
(* TLC decodes raw with the rule layer of Escape.tla (Dec); the verdict    *)
(* is total: a line is rejected iff the decoded characters differ from     *)
(* the text or something in it opens markup, and the rejection names       *)
(* which.  Adjacent word symbols are merged before comparing because the   *)
(* tokeniser may cut one run of letters in two.                            *)
(***************************************************************************)
EXTENDS Escape, IOUtils, TLCExt

VARIABLE tid
Traces == ndJsonDeserialize(IOEnv.TRACE_FILE)

RECURSIVE Merge(_, _, _, _)
Merge(s, i, acc, pw) == IF i > Len(s) THEN acc
                        ELSE IF IsWord(s[i]) /\ pw THEN Merge(s, i + 1, [acc EXCEPT ![Len(acc)] = @ \o s[i]], TRUE)
                        ELSE Merge(s, i + 1, Append(acc, s[i]), IsWord(s[i]))
MergeWords(s) == Merge(s, 1, <<>>, FALSE)

TraceInit == tid \in 1..Len(Traces) /\ str = <<>> /\ ctx = "content" /\ high = FALSE
TraceNext == FALSE /\ UNCHANGED <<tid, str, ctx, high>>

Verdict == LET T == Traces[tid]
               d == Decode(T.ctx, T.raw)
               ok == MergeWords(d.text) = MergeWords(T.want) /\ ~d.markup
           IN ok \/ PrintT(<<"REJ", ToJson([tid |-> tid, got |-> MergeWords(d.text), markup |-> d.markup])>>)
=============================================================================

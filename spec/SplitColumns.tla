----------------------------- MODULE SplitColumns -----------------------------
(***************************************************************************)
(* C18: the column split of each index group is a partition of its entries *)
(* that preserves their order.  IndexUtils.splitColumns transcribed branch  *)
(* for branch: the entries are walked from the LAST to the first with a    *)
(* running total against the per-column quota; TLC checks every sequence   *)
(* of entry sizes (totallen) up to MaxLen over 1..MaxSize and every column *)
(* count 1..MaxCols.                                                       *)
(***************************************************************************)
EXTENDS Naturals, Integers, Sequences, FiniteSets, TLC, Json
CONSTANTS MaxLen, MaxSize, MaxCols

RECURSIVE Seqs(_)
Seqs(n) == IF n = 0 THEN {<<>>} ELSE LET P == Seqs(n - 1) IN P \cup {Append(p, k) : p \in {q \in P : Len(q) = n - 1}, k \in 1..MaxSize}
RECURSIVE Sum(_)
Sum(s) == IF s = <<>> THEN 0 ELSE Head(s) + Sum(Tail(s))
Rev(s) == [i \in 1..Len(s) |-> s[Len(s) + 1 - i]]

(* items are identified by their position; sizes[i] = totallen of item i *)
RECURSIVE Walk(_, _, _, _, _, _)
(* idx: positions still to place (already reversed), current, output (Seq of Seq of positions) *)
Walk(idx, sizes, cols, coltotal, current, output) ==
    IF idx = <<>> THEN output
    ELSE LET item == Head(idx)
             num == sizes[item]
             cur == current + num
             n == Len(output)
         IN IF n >= cols THEN Walk(Tail(idx), sizes, cols, coltotal, cur, [output EXCEPT ![n] = Append(@, item)])
            ELSE IF cur > coltotal THEN Walk(Tail(idx), sizes, cols, coltotal, num, Append(output, <<item>>))
            ELSE IF cur = coltotal THEN Walk(Tail(idx), sizes, cols, coltotal, 0, Append([output EXCEPT ![n] = Append(@, item)], <<>>))
            ELSE Walk(Tail(idx), sizes, cols, coltotal, cur, [output EXCEPT ![n] = Append(@, item)])

Split(sizes, cols) ==
    LET idx == Rev([i \in 1..Len(sizes) |-> i])
        coltotal == Sum(sizes) \div cols
        out1 == Walk(idx, sizes, cols, coltotal, 0, <<<<>>>>)
        out2 == [i \in 1..Len(out1) |-> Rev(Rev(out1)[i])]             \* output.reverse(); each column reversed
        out3 == SelectSeq(out2, LAMBDA c : c # <<>>)                   \* empty columns removed
    IN out3 \o [i \in 1..(IF cols > Len(out3) THEN cols - Len(out3) ELSE 0) |-> <<>>]   \* padded to cols

RECURSIVE Flatten(_)
Flatten(cs) == IF cs = <<>> THEN <<>> ELSE Head(cs) \o Flatten(Tail(cs))

VARIABLES sizes, cols, emitted
Init == sizes \in Seqs(MaxLen) /\ cols \in 1..MaxCols /\ emitted = FALSE
Next == ~emitted /\ emitted' = TRUE /\ UNCHANGED <<sizes, cols>>

(* the concatenation of the columns is the group's entries in their order; exactly `cols` columns *)
ColumnsPartitionInOrder == Flatten(Split(sizes, cols)) = [i \in 1..Len(sizes) |-> i]
ExactlyCols == Len(Split(sizes, cols)) = cols
Emit == emitted => PrintT(<<"BEH", ToJson([sizes |-> sizes, cols |-> cols, split |-> Split(sizes, cols)])>>)
=============================================================================

---------------------------- MODULE IsolationTrace ----------------------------
(***************************************************************************)
(* Trace validation for C17: each line of TRACE_FILE is one history run by *)
(* the real interpreter in one process:                                    *)
(*   {"docs": [[cls, feats, ending], ...],                                 *)
(*    "obs":  [observations of document i, or <<"skip">> if it was aborted],   *)
(*    "snaps": [interpreter-wide state read after document i]}             *)
(* TLC re-executes the history on the Isolation machine from the initial   *)
(* state; the verdict is total and names the first document and the field  *)
(* (an observation, or a component of the interpreter-wide state) on which *)
(* the implementation and the specification disagree.                      *)
(***************************************************************************)
EXTENDS Isolation, IOUtils, TLCExt

VARIABLE tid
Traces == ndJsonDeserialize(IOEnv.TRACE_FILE)

TraceInit == tid \in 1..Len(Traces) /\ w = InitW /\ hist = <<>> /\ lastobs = <<>>
TraceNext == FALSE /\ UNCHANGED <<tid, w, hist, lastobs>>

Doc(j) == [cls |-> j.cls, feats |-> j.feats, ending |-> j.ending]
(* the first disagreement in document i given the state before it, or "" *)
Disagree(T, i, w0) ==
    LET r == Process(Doc(T.docs[i]), w0)
        s == T.snaps[i]
    IN IF T.obs[i] # <<"skip">> /\ T.obs[i] # r.obs THEN "obs"
       ELSE IF s.plevel # r.w.plevel THEN "plevel"
       ELSE IF s.math # r.w.math THEN "math"
       ELSE IF s.list # r.w.list THEN "list"
       ELSE IF s.dmath # r.w.dmath THEN "dmath"
       ELSE IF \E g \in Regs : s.regs[g] # r.w.regs[g] THEN "regs"
       ELSE IF s.idx # r.w.idx THEN "idx"
       ELSE ""
RECURSIVE Walk(_, _, _)
Walk(T, i, w0) == IF i > Len(T.docs) THEN [doc |-> 0, field |-> "", want |-> <<>>]
                  ELSE LET dis == Disagree(T, i, w0)
                           r == Process(Doc(T.docs[i]), w0)
                       IN IF dis # "" THEN [doc |-> i, field |-> dis, want |-> [obs |-> r.obs, w |-> r.w]]
                          ELSE Walk(T, i + 1, r.w)
Verdict == LET v == Walk(Traces[tid], 1, InitW)
           IN v.doc = 0 \/ PrintT(<<"REJ", ToJson([tid |-> tid, doc |-> v.doc, field |-> v.field, want |-> v.want])>>)
=============================================================================

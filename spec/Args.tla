--------------------------------- MODULE Args ---------------------------------
(***************************************************************************)
(* C05, first half: arguments are delimited and bound as the macro's       *)
(* signature declares, and exactly the invocation is consumed.             *)
(*                                                                         *)
(* A signature is a sequence of argument specifications                    *)
(*   "star" | "opt" ([..]) | "paren" ((..)) | "angle" (<..>) | "man"       *)
(* A call is built in Init from one fragment per specification (present /  *)
(* absent optional arguments, nested same-kind brackets, braces that hide  *)
(* a closing bracket, blanks before the argument, single-token mandatory   *)
(* arguments) followed by an arbitrary follower.                           *)
(*                                                                         *)
(* Rule layer: the fragments themselves -- the generator records what was  *)
(* written at each position (want) and what follows (the follower).        *)
(* Machine layer: TeX.readArgumentAndSource per specification, i.e.        *)
(* readOptionalSpaces, readCharacter('*'), readGrouping(open, close) with  *)
(* its nesting counter, readToken with its brace counter -- one action per *)
(* argument -- consuming the token list.                                   *)
(* Invariant BindsDeclared: after the last argument the bound values are   *)
(* the written ones and the remaining input is the follower.               *)
(***************************************************************************)
EXTENDS Naturals, Sequences, FiniteSets, TLC, Json

CONSTANTS MaxArgs,
          UrlTyped,    \* TRUE: the bracketed arguments are declared with type url -- while one is read # ~ % & are ordinary characters
          RestoreOnAbsent,  \* TRUE: the category codes are put back also when the optional argument turns out to be absent (as built)
          BraceAware   \* TRUE: readGrouping treats a brace group inside [..] as opaque (repaired);
                       \* FALSE: it compares every token with the closer regardless of braces (as built, F17)

Kinds == {"star", "opt", "paren", "angle", "man"}
Open(k) == CASE k = "opt" -> "[" [] k = "paren" -> "(" [] k = "angle" -> "<"
Close(k) == CASE k = "opt" -> "]" [] k = "paren" -> ")" [] k = "angle" -> ">"

Absent == <<"ABSENT">>

(* fragments: [t |-> tokens written, v |-> value the signature binds] *)
Frags(k) ==
    CASE k = "star" -> {[t |-> <<"*">>, v |-> <<"*">>], [t |-> <<>>, v |-> Absent], [t |-> <<" ", "*">>, v |-> <<"*">>]}
      [] k = "man" -> {[t |-> <<"{", "a", "b", "}">>, v |-> <<"a", "b">>], [t |-> <<"a">>, v |-> <<"a">>],
                       [t |-> <<"{", "a", "{", "b", "}", "c", "}">>, v |-> <<"a", "{", "b", "}", "c">>],
                       [t |-> <<" ", "{", "]", "}">>, v |-> <<"]">>], [t |-> <<"{", "}">>, v |-> <<>>],
                       [t |-> <<"\\vcs">>, v |-> <<"\\vcs">>], [t |-> <<"{", "[", "a", "}">>, v |-> <<"[", "a">>]}
      [] OTHER -> LET o == Open(k)
                      c == Close(k)
                  IN {[t |-> <<>>, v |-> Absent],
                      [t |-> <<o, "a", "b", c>>, v |-> <<"a", "b">>],
                      [t |-> <<o, c>>, v |-> <<>>],
                      [t |-> <<o, "a", o, "b", c, "c", c>>, v |-> <<"a", o, "b", c, "c">>],            \* nested same-kind brackets
                      [t |-> <<o, o, "a", c, o, "b", c, c>>, v |-> <<o, "a", c, o, "b", c>>],
                      [t |-> <<o, "{", c, "}", "a", c>>, v |-> <<"{", c, "}", "a">>],                  \* a brace group hides a closer
                      [t |-> <<o, "a", "{", o, "}", c>>, v |-> <<"a", "{", o, "}">>],                  \* ... or an opener
                      [t |-> <<" ", o, "a", c>>, v |-> <<"a">>],                                        \* blank before the argument
                      [t |-> <<o, "\\vcs", "a", c>>, v |-> <<"\\vcs", "a">>]}

(* ... including control symbols that are NAMED like an opening delimiter: they are not delimiters *)
Followers == {<<>>, <<"x">>, <<"~", "x">>, <<"[", "x", "]">>, <<"*">>, <<" ", "x">>, <<"\\relax", "x">>, <<"(", "x">>, <<"{", "x", "}">>,
              <<"\\[", "x">>, <<"\\(", "x">>}

RECURSIVE Sigs(_)
(* the star modifier can only be the first specification *)
Sigs(n) == IF n = 0 THEN {<<>>} ELSE LET P == Sigs(n - 1) IN
           P \cup {Append(p, k) : p \in {q \in P : Len(q) = n - 1}, k \in Kinds \ {"star"}} \cup (IF n = 1 THEN {<<"star">>} ELSE {})

(* typed arguments: what is written between the delimiters and the value the type denotes; the
   harness runs each through the real cast functions (string, integer, float, list with either delimiter,
   dictionary, token, unexpanded) *)
Typed == {[ty |-> "str", t |-> <<"{", " ", "a", " ", "b", " ", "}">>, v |-> "a b"],
          [ty |-> "str", t |-> <<"{", "a", "b", "c", "}">>, v |-> "abc"],
          [ty |-> "str", t |-> <<"a">>, v |-> "a"],
          [ty |-> "str", t |-> <<"{", "a", "{", "b", "}", "c", "}">>, v |-> "abc"],
          [ty |-> "int", t |-> <<"{", "1", "2", "}">>, v |-> "12"],
          [ty |-> "int", t |-> <<"{", "-", "3", "}">>, v |-> "-3"],
          [ty |-> "int", t |-> <<"{", "\"", "1", "F", "}">>, v |-> "31"],
          [ty |-> "float", t |-> <<"{", "1", ".", "5", "}">>, v |-> "1.5"],
          [ty |-> "float", t |-> <<"{", "-", ".", "2", "5", "}">>, v |-> "-0.25"],
          [ty |-> "list", t |-> <<"{", "a", ",", "b", ",", "c", "}">>, v |-> "a|b|c"],
          [ty |-> "list", t |-> <<"{", "a", ",", "{", "b", ",", "c", "}", ",", "d", "}">>, v |-> "a|b,c|d"],
          [ty |-> "list", t |-> <<"{", "a", "}">>, v |-> "a"],
          [ty |-> "list(;)", t |-> <<"{", "a", ";", "b", ",", "c", "}">>, v |-> "a|b,c"],
          [ty |-> "dict", t |-> <<"{", "k", "=", "v", ",", "w", "}">>, v |-> "k=v|w=True"],
          [ty |-> "dict", t |-> <<"{", "k", "=", "{", "a", ",", "b", "}", ",", "j", "=", "2", "}">>, v |-> "j=2|k=a,b"],
          [ty |-> "Tok", t |-> <<"a", "b">>, v |-> "a"],
          [ty |-> "Tok", t |-> <<"\\vcs", "b">>, v |-> "\\vcs"],
          [ty |-> "nox", t |-> <<"{", "\\vcs", "a", "}">>, v |-> "\\vcs a"],
          [ty |-> "Dimen", t |-> <<"1", ".", "5", "c", "m", " ">>, v |-> "1.5cm"],
          [ty |-> "Number", t |-> <<"4", "2", " ">>, v |-> "42"]}

VARIABLES sig, frags, follower,   \* the generated call (rule layer data)
          inp,                    \* remaining tokens
          bound,                  \* values bound so far
          i,                      \* index of the next argument
          cat                     \* category codes in force: "normal" or "url" (# ~ % & ordinary)
vars == <<sig, frags, follower, inp, bound, i, cat>>

RECURSIVE Cat(_)
Cat(fs) == IF fs = <<>> THEN <<>> ELSE Head(fs).t \o Cat(Tail(fs))

(* a call is conforming when an absent optional/star argument is not followed by something that looks like it *)
FirstNonBlank(s) == IF s = <<>> THEN "" ELSE IF s[1] = " " THEN (IF Len(s) > 1 THEN s[2] ELSE "") ELSE s[1]
RECURSIVE RestFrom(_, _, _)
RestFrom(fs, j, fol) == IF j > Len(fs) THEN fol ELSE fs[j].t \o RestFrom(fs, j + 1, fol)
Conforming(sg, fs, fol) ==
    \A j \in 1..Len(sg) :
        (fs[j].v = Absent) =>
            LET nxt == FirstNonBlank(RestFrom(fs, j + 1, fol)) IN
            IF sg[j] = "star" THEN nxt # "*" ELSE nxt # Open(sg[j])

RECURSIVE FragSeqs(_)
FragSeqs(sg) == IF sg = <<>> THEN {<<>>} ELSE {<<f>> \o r : f \in Frags(Head(sg)), r \in FragSeqs(Tail(sg))}

Init == /\ sig \in Sigs(MaxArgs) /\ sig # <<>>
        /\ frags \in FragSeqs(sig)
        /\ follower \in Followers
        /\ Conforming(sig, frags, follower)
        /\ inp = Cat(frags) \o follower
        /\ bound = <<>> /\ i = 1 /\ cat = "normal"

(* ---- readers (machine layer) ---- *)
SkipBlanks(s) == IF s # <<>> /\ s[1] = " " THEN Tail(s) ELSE s          \* the tokenizer has collapsed runs of blanks

IsCs(t) == Len(t) > 1

(* readGrouping: nesting counter on the same bracket pair; control sequences never match *)
RECURSIVE Grp(_, _, _, _, _, _)
(* s: remaining, o/c: brackets, level, blevel: brace depth, acc *)
Grp(s, o, c, level, blevel, acc) ==
    IF s = <<>> THEN [ok |-> FALSE, v |-> acc, rest |-> s]
    ELSE LET t == Head(s)
             active == ~BraceAware \/ blevel = 0
         IN IF t = "{" THEN Grp(Tail(s), o, c, level, blevel + 1, Append(acc, t))
            ELSE IF t = "}" THEN Grp(Tail(s), o, c, level, IF blevel > 0 THEN blevel - 1 ELSE 0, Append(acc, t))
            ELSE IF active /\ ~IsCs(t) /\ t = o THEN Grp(Tail(s), o, c, level + 1, blevel, Append(acc, t))
            ELSE IF active /\ ~IsCs(t) /\ t = c THEN (IF level = 1 THEN [ok |-> TRUE, v |-> acc, rest |-> Tail(s)]
                                                      ELSE Grp(Tail(s), o, c, level - 1, blevel, Append(acc, t)))
            ELSE Grp(Tail(s), o, c, level, blevel, Append(acc, t))

ReadGrouping(s, k) == IF s # <<>> /\ s[1] = Open(k) THEN Grp(Tail(s), Open(k), Close(k), 1, 0, <<>>)
                      ELSE [ok |-> TRUE, v |-> Absent, rest |-> s]                \* first token pushed back: argument absent

RECURSIVE Brace(_, _, _)
Brace(s, level, acc) == IF s = <<>> THEN [ok |-> FALSE, v |-> acc, rest |-> s]
                        ELSE IF s[1] = "{" THEN Brace(Tail(s), level + 1, Append(acc, s[1]))
                        ELSE IF s[1] = "}" THEN (IF level = 1 THEN [ok |-> TRUE, v |-> acc, rest |-> Tail(s)]
                                                 ELSE Brace(Tail(s), level - 1, Append(acc, s[1])))
                        ELSE Brace(Tail(s), level, Append(acc, s[1]))
ReadToken(s) == IF s = <<>> THEN [ok |-> FALSE, v |-> Absent, rest |-> s]
                ELSE IF s[1] = "{" THEN Brace(Tail(s), 1, <<>>)
                ELSE [ok |-> TRUE, v |-> <<s[1]>>, rest |-> Tail(s)]

ReadStar(s) == IF s # <<>> /\ s[1] = "*" THEN [ok |-> TRUE, v |-> <<"*">>, rest |-> Tail(s)]
               ELSE [ok |-> TRUE, v |-> Absent, rest |-> s]

ReadOne(k, s0) == LET s == SkipBlanks(s0) IN
                  CASE k = "star" -> ReadStar(s) [] k = "man" -> ReadToken(s) [] OTHER -> ReadGrouping(s, k)

ReadArgument ==
    /\ i <= Len(sig)
    /\ LET r == ReadOne(sig[i], inp) IN
         /\ r.ok
         /\ bound' = Append(bound, r.v) /\ inp' = r.rest
         (* readArgumentAndSource sets the codes of the type before reading and puts the prior ones back afterwards *)
         /\ cat' = IF UrlTyped /\ sig[i] \in {"opt", "paren", "angle"} /\ r.v = Absent /\ ~RestoreOnAbsent THEN "url" ELSE cat
    /\ i' = i + 1
    /\ UNCHANGED <<sig, frags, follower>>

Next == ReadArgument
Spec == Init /\ [][Next]_vars

Done == i = Len(sig) + 1

-----------------------------------------------------------------------------
BindsDeclared == Done => \A j \in 1..Len(sig) : bound[j] = frags[j].v
(* what follows is untouched; a blank directly after the invocation may be absorbed while looking for a
   trailing optional argument (as LaTeX's own \@ifnextchar does) *)
ConsumesExactly == Done => (inp = follower \/ (follower # <<>> /\ follower[1] = " " /\ inp = Tail(follower)))
(* the category codes an argument type changes never outlive the argument *)
CatcodesRestored == cat = "normal"
NeverStuck == ~Done => ReadOne(sig[i], inp).ok
EmitTyped == PrintT(<<"TYPED", ToJson(Typed)>>)
Emit == Done => PrintT(<<"BEH", ToJson([sig |-> sig, call |-> Cat(frags), follower |-> follower, want |-> [j \in 1..Len(sig) |-> frags[j].v],
                                        bound |-> bound, rest |-> inp, cat |-> cat])>>)
=============================================================================

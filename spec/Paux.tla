-------------------------------- MODULE Paux --------------------------------
(***************************************************************************)
(* C20 -- cross-document label data (.paux file) survives a round trip and *)
(* never blocks processing.                                                *)
(*                                                                         *)
(* The file is modelled by what unpickling it yields:                      *)
(*   k = "missing"     no file                                             *)
(*   k = "unloadable"  empty / truncated / garbage: pickle.load raises     *)
(*   k = "nondict"     loads, but the top-level object is not a dictionary *)
(*   k = "dict"        loads to a dictionary d : Renderer -> section, with *)
(*                     section = [ok, labs]; ok = FALSE: the renderer's    *)
(*                     entry is not itself a dictionary (foreign/flipped); *)
(*                     labs : Label -> value, value 0 = a damaged entry    *)
(*                     (not an attribute dictionary)                       *)
(* Actions are Context.persist / Context.restore with one disjunct per     *)
(* branch of the code, and the faults of the property's quantifier.        *)
(***************************************************************************)
EXTENDS Naturals, Sequences, FiniteSets, TLC, Json

CONSTANTS Renderers, Labels,
          ValsOf,          \* Renderer -> set of attribute values a label rendered by it can have (>0)
          MaxOps,
          SectionChecked   \* TRUE: persist replaces a renderer entry that is not a dictionary (repaired);
                           \* FALSE: it writes into it and raises (as built)

VARIABLES file, restored, failed, nops, hist
vars == <<file, restored, failed, nops, hist>>
view == <<file, restored, failed, nops>>

Empty == <<>>
Has(f, x) == x \in DOMAIN f
Put(f, x, v) == [y \in (DOMAIN f) \cup {x} |-> IF y = x THEN v ELSE f[y]]
Merge(f, g) == [y \in (DOMAIN f) \cup (DOMAIN g) |-> IF y \in DOMAIN g THEN g[y] ELSE f[y]]
Restrict(f, S) == [y \in S |-> f[y]]

NoFile == [k |-> "missing", d |-> Empty]
EmptySection == [ok |-> TRUE, labs |-> Empty]

(* all partial maps Labels -> ValsOf[r] *)
Mems(r) == UNION {[S -> ValsOf[r]] : S \in SUBSET Labels}
IsMem(r, m) == DOMAIN m \subseteq Labels /\ \A x \in DOMAIN m : m[x] \in ValsOf[r]

(* a label entry whose strings were altered by corruption but which still is an attribute dictionary:
   it is restored as it is (corruption of content cannot be detected); 0 = not a dictionary at all *)
Altered == 99

Loads == file.k = "dict"

GoodLabs(sec) == {l \in DOMAIN sec.labs : sec.labs[l] # 0}

(* what restore(r) can return: nothing unless the file loads to a dictionary with a dictionary
   entry for r; a damaged label entry aborts the loop, keeping what was restored before it *)
RestoreResults(f, r) ==
    IF f.k # "dict" \/ ~Has(f.d, r) \/ ~f.d[r].ok THEN {Empty}
    ELSE LET sec == f.d[r] IN
         IF GoodLabs(sec) = DOMAIN sec.labs THEN {sec.labs}
         ELSE {Restrict(sec.labs, S) : S \in SUBSET GoodLabs(sec)}

Log(o) == /\ nops < MaxOps /\ nops' = nops + 1 /\ hist' = Append(hist, o @@ [file |-> file', res |-> restored', failed |-> failed'])
Op(op, r, m, l) == [op |-> op, r |-> r, m |-> m, l |-> l]

(* ---- Context.persist(filename, r) with the labels m of the document just rendered ---- *)
Save(r, m) ==
    /\ r \in Renderers /\ IsMem(r, m) /\ ~failed
    /\ LET base == IF file.k = "dict" THEN file.d ELSE Empty           \* unreadable: removed, start afresh
           old == IF Has(base, r) THEN base[r] ELSE EmptySection
           sec == IF old.ok THEN old ELSE (IF SectionChecked THEN EmptySection ELSE old)
       IN IF ~sec.ok /\ m # Empty
          THEN (* as built: data[key] = value on a non-dictionary raises out of persist; the file is untouched *)
               /\ failed' = TRUE /\ UNCHANGED <<file, restored>>
          ELSE /\ file' = [k |-> "dict", d |-> Put(base, r, [ok |-> sec.ok, labs |-> Merge(sec.labs, m)])]
               /\ UNCHANGED <<restored, failed>>
    /\ Log(Op("save", r, m, ""))

Restore(r, res) ==
    /\ r \in Renderers /\ ~failed
    /\ res \in RestoreResults(file, r)
    /\ restored' = res
    /\ UNCHANGED <<file, failed>>
    /\ Log(Op("restore", r, Empty, ""))

(* ---- faults ---- *)
Delete == /\ ~failed /\ file' = NoFile /\ UNCHANGED <<restored, failed>> /\ Log(Op("delete", "", Empty, ""))
(* empty file, any truncation of a saved file, a foreign non-pickle file *)
MakeUnloadable == /\ ~failed /\ file' = [k |-> "unloadable", d |-> Empty] /\ UNCHANGED <<restored, failed>>
                  /\ Log(Op("unloadable", "", Empty, ""))
(* a foreign pickle whose top-level object is not a dictionary *)
MakeNonDict == /\ ~failed /\ file' = [k |-> "nondict", d |-> Empty] /\ UNCHANGED <<restored, failed>>
               /\ Log(Op("nondict", "", Empty, ""))
(* corruption that leaves a loadable dictionary whose entry for r is not a dictionary *)
BreakSection(r) == /\ ~failed /\ r \in Renderers /\ file.k = "dict" /\ Has(file.d, r)
                   /\ file' = [file EXCEPT !.d = Put(file.d, r, [ok |-> FALSE, labs |-> Empty])]
                   /\ UNCHANGED <<restored, failed>> /\ Log(Op("breaksection", r, Empty, ""))
(* corruption that damages one label entry *)
BreakLabel(r, l) == /\ ~failed /\ r \in Renderers /\ file.k = "dict" /\ Has(file.d, r) /\ file.d[r].ok
                    /\ Has(file.d[r].labs, l)
                    /\ file' = [file EXCEPT !.d = Put(file.d, r, [ok |-> TRUE, labs |-> Put(file.d[r].labs, l, 0)])]
                    /\ UNCHANGED <<restored, failed>> /\ Log(Op("breaklabel", r, Empty, l))

Init == file = NoFile /\ restored = Empty /\ failed = FALSE /\ nops = 0 /\ hist = <<>>

RestoreAny(r) == \E res \in RestoreResults(file, r) : Restore(r, res)

Next == \/ \E r \in Renderers : (\E m \in Mems(r) : Save(r, m)) \/ RestoreAny(r)
                                \/ BreakSection(r) \/ (\E l \in Labels : BreakLabel(r, l))
        \/ Delete \/ MakeUnloadable \/ MakeNonDict

Spec == Init /\ [][Next]_vars

-----------------------------------------------------------------------------
(* a damaged file never makes processing fail *)
NeverFails == ~failed

(* restore never fails: it has an outcome in every file state *)
RestoreTotal == \A r \in Renderers : RestoreResults(file, r) # {}

(* at worst labels are absent: whatever restore returns is in the file, for that renderer, unchanged *)
AtWorstAbsent == \A r \in Renderers : \A res \in RestoreResults(file, r) :
                    /\ DOMAIN res \subseteq Labels
                    /\ \A l \in DOMAIN res : res[l] \in ValsOf[r] \cup {Altered}

(* per renderer: one renderer's values never show up under another *)
PerRenderer == file.k = "dict" => \A r \in (DOMAIN file.d) \cap Renderers :
                   \A l \in GoodLabs(file.d[r]) : file.d[r].labs[l] \in ValsOf[r] \cup {Altered}

(* round trip / healing, on the step: after a successful save(r, m) the file loads, and restore(r)
   returns every saved label with its saved value; exactly m when there was nothing usable for r before;
   entries of other renderers are kept when the old file was readable *)
SaveHeals ==
    [][(\E r \in Renderers : hist'[Len(hist')].op = "save" /\ hist'[Len(hist')].r = r /\ ~failed') =>
         LET r == hist'[Len(hist')].r
             m == hist'[Len(hist')].m
         IN /\ file'.k = "dict" /\ Has(file'.d, r) /\ file'.d[r].ok
            /\ \A res \in RestoreResults(file', r) : \A l \in DOMAIN m : (Has(res, l) => res[l] = m[l])
            /\ (GoodLabs(file'.d[r]) = DOMAIN file'.d[r].labs => \A res \in RestoreResults(file', r) : DOMAIN m \subseteq DOMAIN res)
            /\ ((file.k # "dict" \/ ~Has(file.d, r)) => RestoreResults(file', r) = {m})
            /\ (file.k = "dict" => \A q \in (DOMAIN file.d) \ {r} : file'.d[q] = file.d[q])]_vars

EmitState == PrintT(<<"BEH", ToJson([h |-> hist])>>)
=============================================================================

---------------------------- MODULE ContextTrace ----------------------------
(***************************************************************************)
(* Trace validation for C04: events recorded by the Context hooks (H5)     *)
(* while the real parser processes generated documents, restricted to the  *)
(* marker names/characters of interest.  TRACE_FILE: ndjson, one trace per *)
(* line: {"ev": [{"op":..,"o":objrec|0,"n":..,"v":..,"c":..,"k":..,        *)
(*                "depth":..,"look":{..},"cat":{..},"share":[..],          *)
(*                "objs":[..]}, ...]}                                      *)
(***************************************************************************)
EXTENDS Context, IOUtils, TLCExt

VARIABLES tid, l

Traces == ndJsonDeserialize(IOEnv.TRACE_FILE)
Ev == Traces[tid].ev

TraceInit == tid \in 1..Len(Traces) /\ l = 1 /\ Init

Act(e) ==
    CASE e.op = "push" -> PushAnon
      [] e.op = "pushobj" -> PushObjBody(e.orec)
      [] e.op = "pop" -> PopAnon
      [] e.op = "popobj" -> PopObjBody(e.orec)
      [] e.op = "deflocal" -> DefLocal(e.n, e.v)
      [] e.op = "defglobal" -> DefGlobal(e.n, e.v)
      [] e.op = "letmacro" -> LetMacro(e.n, e.c)
      [] e.op = "letchar" -> LetChar(e.n, e.c)
      [] e.op = "catcode" -> SetCat(e.c, e.k)
      [] e.op = "verbatim" -> SetVerbatim
      [] OTHER -> FALSE

Matches(e) == LET r == hist'[Len(hist')] IN
    /\ r.depth = e.depth /\ r.look = e.look /\ r.cat = e.cat /\ r.share = e.share /\ r.objs = e.objs

TraceNext ==
    /\ l <= Len(Ev)
    /\ Act(Ev[l])
    /\ Matches(Ev[l])
    /\ l' = l + 1 /\ UNCHANGED tid

ASSUME \A t \in 1..Len(Traces) : TLCSet(t, 1)
Progress == IF l > TLCGet(tid) THEN TLCSet(tid, l) ELSE TRUE
(* at the end of a balanced input the stack is back at its initial depth *)
BalancedAtEnd == (l = Len(Ev) + 1 /\ Traces[tid].balanced) => Len(stack) = Traces[tid].enddepth
Rejected == {t \in 1..Len(Traces) : TLCGet(t) # Len(Traces[t].ev) + 1}
TraceAccepted == PrintT(<<"REJ", ToJson([x \in Rejected |-> TLCGet(x)])>>)
=============================================================================

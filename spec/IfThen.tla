------------------------------- MODULE IfThen -------------------------------
(***************************************************************************)
(* C19 -- ifthen tests evaluate as the boolean expression they spell.      *)
(*                                                                         *)
(* Rule layer: expression trees, their denotation and their spelling       *)
(* (\not binds tightest, \and / \or have equal precedence and associate to *)
(* the left, \( \) where needed or everywhere).                            *)
(* Machine layer: ifthenelse.evaluate -- the infix-to-postfix conversion   *)
(* with an operator stack and the code's precedence table, then the        *)
(* postfix evaluation on a value stack, one action per loop iteration.     *)
(*                                                                         *)
(* Expressions are tuples: <<"T">>, <<"F">>  (atoms that expand to a truth *)
(* token: \equal, \isodd, \isundefined, \boolean, \lengthtest),            *)
(* <<"cmp", a, op, b>> (integer comparison spelled in the test itself),    *)
(* <<"not", e>>, <<"and", e1, e2>>, <<"or", e1, e2>>.                      *)
(* Tokens: "T" "F" "<" ">" "=" "and" "or" "not" "(" ")" and numbers.       *)
(***************************************************************************)
EXTENDS Naturals, Sequences, FiniteSets, TLC, Json

CONSTANTS Depth,       \* expression trees of depth <= Depth are enumerated
          FullParens,  \* set of BOOLEAN: spell with minimal and/or with redundant parentheses
          NotPrefix    \* TRUE: \not is a prefix operator of higher precedence that never pops the operator
                       \* stack (repaired); FALSE: \not has the precedence of \and/\or and pops (as built, F2)

(* every token is a string (TLC compares only like with like): numbers are "1" "2" "3" *)
Atoms == {<<"T">>, <<"F">>, <<"cmp", "1", "<", "2">>, <<"cmp", "2", "<", "1">>, <<"cmp", "2", "=", "2">>, <<"cmp", "1", ">", "3">>}
NumVal(t) == CASE t = "1" -> 1 [] t = "2" -> 2 [] t = "3" -> 3
B(b) == IF b THEN "T" ELSE "F"
IsBool(v) == v \in {"T", "F"}

RECURSIVE Exprs(_)
Exprs(d) == IF d = 0 THEN Atoms
            ELSE LET S == Exprs(d - 1) IN
                 S \cup {<<"not", e>> : e \in S}
                   \cup {<<"and", a, b>> : a \in S, b \in S}
                   \cup {<<"or", a, b>> : a \in S, b \in S}

RECURSIVE Denote(_)
Denote(e) == CASE e[1] = "T" -> TRUE
               [] e[1] = "F" -> FALSE
               [] e[1] = "cmp" -> (CASE e[3] = "<" -> NumVal(e[2]) < NumVal(e[4]) [] e[3] = ">" -> NumVal(e[2]) > NumVal(e[4])
                                     [] e[3] = "=" -> NumVal(e[2]) = NumVal(e[4]))
               [] e[1] = "not" -> ~Denote(e[2])
               [] e[1] = "and" -> Denote(e[2]) /\ Denote(e[3])
               [] e[1] = "or" -> Denote(e[2]) \/ Denote(e[3])

IsBin(e) == e[1] \in {"and", "or"}
Paren(s) == <<"(">> \o s \o <<")">>

RECURSIVE Spell(_, _)
Spell(e, full) ==
    CASE e[1] \in {"T", "F"} -> <<e[1]>>
      [] e[1] = "cmp" -> <<e[2], e[3], e[4]>>
      [] e[1] = "not" -> <<"not">> \o (IF IsBin(e[2]) \/ full THEN Paren(Spell(e[2], full)) ELSE Spell(e[2], full))
      [] IsBin(e) -> (IF full /\ IsBin(e[2]) THEN Paren(Spell(e[2], full)) ELSE Spell(e[2], full))
                     \o <<e[1]>>
                     \o (IF IsBin(e[3]) \/ (full /\ e[3][1] = "not") THEN Paren(Spell(e[3], full)) ELSE Spell(e[3], full))

VARIABLES expr, full,      \* the test (chosen in Init)
          toks,            \* remaining input tokens
          ops,             \* operator stack (the list `stack` during conversion)
          postfix,         \* output queue
          vals,            \* value stack of the second loop
          phase,           \* "convert" | "flush" | "eval" | "done" | "error"
          result
vars == <<expr, full, toks, ops, postfix, vals, phase, result>>

IsNum(t) == t \in {"1", "2", "3"}
IsCmp(t) == t \in {"<", ">", "="}

(* the code's precedence table *)
Prec(t) == IF IsCmp(t) THEN (IF NotPrefix THEN 3 ELSE 2)
           ELSE IF t = "not" THEN (IF NotPrefix THEN 2 ELSE 1)
           ELSE IF t \in {"and", "or"} THEN 1
           ELSE 0

Init == /\ expr \in Exprs(Depth) /\ full \in FullParens
        /\ toks = Spell(expr, full)
        /\ ops = <<>> /\ postfix = <<>> /\ vals = <<>> /\ phase = "convert" /\ result = FALSE

Top(s) == s[Len(s)]
Pop(s) == SubSeq(s, 1, Len(s) - 1)

(* pop operators of greater or equal precedence to the output *)
RECURSIVE PopWhile(_, _, _)
PopWhile(t, st, out) == IF st # <<>> /\ Prec(t) <= Prec(Top(st)) THEN PopWhile(t, Pop(st), Append(out, Top(st)))
                        ELSE <<st, out>>

RECURSIVE PopToParen(_, _)
PopToParen(st, out) == IF st = <<>> THEN <<st, out, FALSE>>
                       ELSE IF Top(st) = "(" THEN <<Pop(st), out, TRUE>>
                       ELSE PopToParen(Pop(st), Append(out, Top(st)))

ReadOperand ==           \* numbers and truth tokens go straight to the output
    /\ phase = "convert" /\ toks # <<>> /\ (IsNum(Head(toks)) \/ Head(toks) \in {"T", "F"})
    /\ postfix' = Append(postfix, Head(toks)) /\ toks' = Tail(toks)
    /\ UNCHANGED <<expr, full, ops, vals, phase, result>>

OpenParen ==
    /\ phase = "convert" /\ toks # <<>> /\ Head(toks) = "("
    /\ ops' = Append(ops, "(") /\ toks' = Tail(toks)
    /\ UNCHANGED <<expr, full, postfix, vals, phase, result>>

CloseParen ==
    /\ phase = "convert" /\ toks # <<>> /\ Head(toks) = ")"
    /\ LET r == PopToParen(ops, postfix) IN
         IF r[3] THEN ops' = r[1] /\ postfix' = r[2] /\ phase' = phase
         ELSE ops' = ops /\ postfix' = postfix /\ phase' = "error"       \* stack.pop() on an empty list
    /\ toks' = Tail(toks)
    /\ UNCHANGED <<expr, full, vals, result>>

Operator ==
    /\ phase = "convert" /\ toks # <<>> /\ (IsCmp(Head(toks)) \/ Head(toks) \in {"and", "or", "not"})
    /\ LET t == Head(toks)
           r == IF NotPrefix /\ t = "not" THEN <<ops, postfix>> ELSE PopWhile(t, ops, postfix)
       IN ops' = Append(r[1], t) /\ postfix' = r[2]
    /\ toks' = Tail(toks)
    /\ UNCHANGED <<expr, full, vals, phase, result>>

EndOfInput ==
    /\ phase = "convert" /\ toks = <<>>
    /\ phase' = "flush"
    /\ UNCHANGED <<expr, full, toks, ops, postfix, vals, result>>

Flush ==
    /\ phase = "flush"
    /\ IF ops = <<>> THEN phase' = "eval" /\ UNCHANGED <<ops, postfix>>
       ELSE ops' = Pop(ops) /\ postfix' = Append(postfix, Top(ops)) /\ phase' = phase
    /\ UNCHANGED <<expr, full, toks, vals, result>>

(* second loop: one postfix item per step *)
EvalStep ==
    /\ phase = "eval" /\ postfix # <<>>
    /\ LET t == Head(postfix)
           n == Len(vals)
       IN \/ /\ (IsNum(t) \/ t \in {"T", "F"})
             /\ vals' = Append(vals, t) /\ phase' = phase
          \/ /\ t \in {"and", "or"}
             /\ IF n >= 2 /\ IsBool(vals[n]) /\ IsBool(vals[n - 1])
                THEN vals' = Append(SubSeq(vals, 1, n - 2), IF t = "and" THEN B(vals[n - 1] = "T" /\ vals[n] = "T")
                                                            ELSE B(vals[n - 1] = "T" \/ vals[n] = "T"))
                     /\ phase' = phase
                ELSE vals' = vals /\ phase' = "error"              \* pop from empty list / missing boolean
          \/ /\ t = "not"
             /\ IF n >= 1 /\ IsBool(vals[n])
                THEN vals' = Append(SubSeq(vals, 1, n - 1), B(vals[n] = "F")) /\ phase' = phase
                ELSE vals' = vals /\ phase' = "error"
          \/ /\ IsCmp(t)
             /\ IF n >= 2 /\ IsNum(vals[n]) /\ IsNum(vals[n - 1])
                THEN vals' = Append(SubSeq(vals, 1, n - 2),
                                    B(CASE t = "<" -> NumVal(vals[n - 1]) < NumVal(vals[n])
                                        [] t = ">" -> NumVal(vals[n - 1]) > NumVal(vals[n])
                                        [] t = "=" -> NumVal(vals[n - 1]) = NumVal(vals[n])))
                     /\ phase' = phase
                ELSE vals' = vals /\ phase' = "error"
          \/ /\ t \in {"(", ")"} /\ vals' = vals /\ phase' = phase        \* ignored by the evaluator
    /\ postfix' = Tail(postfix)
    /\ UNCHANGED <<expr, full, toks, ops, result>>

Finish ==
    /\ phase = "eval" /\ postfix = <<>>
    /\ result' = (vals # <<>> /\ Top(vals) = "T")                         \* not a truth value on top: false
    /\ phase' = "done"
    /\ UNCHANGED <<expr, full, toks, ops, postfix, vals>>

Next == ReadOperand \/ OpenParen \/ CloseParen \/ Operator \/ EndOfInput \/ Flush \/ EvalStep \/ Finish
Spec == Init /\ [][Next]_vars /\ WF_vars(Next)

-----------------------------------------------------------------------------
NeverUnderflows == phase # "error"
EvalIsDenotation == phase = "done" => result = Denote(expr)
(* the evaluation leaves exactly one value: the whole test was one expression *)
OneValue == phase = "done" => Len(vals) = 1
Terminates == <>(phase \in {"done", "error"})

Emit == (phase \in {"done", "error"}) =>
            PrintT(<<"BEH", ToJson([toks |-> Spell(expr, full), ok |-> phase = "done", result |-> result, denote |-> Denote(expr)])>>)
=============================================================================

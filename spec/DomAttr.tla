------------------------------- MODULE DomAttr -------------------------------
(***************************************************************************)
(* C06 (normalize, attribute part) -- Node.normalize merges adjacent text  *)
(* nodes everywhere below a node: in its child list, in the child lists of *)
(* its descendants AND in the document fragments that it and its           *)
(* descendants hold as attribute values (macro arguments).                 *)
(*                                                                         *)
(* A node is [k |-> "t"] (text) or [k |-> "e", kids, hasattr, attr]; attr  *)
(* is the child list of the fragment held as attribute value.              *)
(* Machine layer: normalize as the code does it -- first the attribute     *)
(* fragments, then (only if there are children) the runs of text children  *)
(* are merged and the element children are normalized in turn.  GuardFirst *)
(* moves the "no children: return" guard above the attribute loop (the     *)
(* seeded variant: an element without children never normalizes its        *)
(* attribute values).                                                      *)
(* Rule layer: Merged(n) -- no two adjacent text nodes anywhere reachable  *)
(* through children or attribute values; nothing else changes.             *)
(***************************************************************************)
EXTENDS Naturals, Sequences, FiniteSets, TLC, Json

CONSTANTS MaxLen,
          GuardFirst      \* FALSE: as built (attributes are normalized before the guard); TRUE: guard first

T == [k |-> "t"]
E(kids, hasattr, attr) == [k |-> "e", kids |-> kids, hasattr |-> hasattr, attr |-> attr]
E0 == E(<<>>, FALSE, <<>>)
Items == {T, E0,
          E(<<T, T>>, FALSE, <<>>),                 \* children to merge
          E(<<>>, TRUE, <<T, T>>),                  \* no children, attribute value to merge
          E(<<T, T>>, TRUE, <<T, T, E0, T>>),       \* both
          E(<<E(<<>>, TRUE, <<T, T>>)>>, TRUE, <<E(<<T, T>>, FALSE, <<>>)>>)}   \* one level deeper, through a child and through an attribute

RECURSIVE SeqsUpTo(_, _)
SeqsUpTo(S, n) == IF n = 0 THEN {<<>>} ELSE LET P == SeqsUpTo(S, n - 1) IN P \cup {Append(p, x) : p \in {q \in P : Len(q) = n - 1}, x \in S}

VARIABLES root
Init == root \in {E(ks, ha, IF ha THEN at ELSE <<>>) : ks \in SeqsUpTo(Items, MaxLen), ha \in BOOLEAN, at \in SeqsUpTo(Items, MaxLen)}
Next == UNCHANGED root
Spec == Init /\ [][Next]_root

(* merge runs of text in a list (the nodes themselves untouched) *)
RECURSIVE MergeRuns(_)
MergeRuns(s) == IF Len(s) < 2 THEN s
                ELSE IF s[1].k = "t" /\ s[2].k = "t" THEN MergeRuns(Tail(s))
                ELSE <<s[1]>> \o MergeRuns(Tail(s))

(* ---------------- rule layer ---------------- *)
RECURSIVE Merged(_), MergedSeq(_)
MergedSeq(s) == MergeRuns([i \in 1..Len(s) |-> Merged(s[i])])
Merged(n) == IF n.k = "t" THEN n ELSE E(MergedSeq(n.kids), n.hasattr, MergedSeq(n.attr))

(* ---------------- machine layer: Node.normalize ---------------- *)
RECURSIVE Norm(_), NormSeq(_)
NormSeq(s) == MergeRuns([i \in 1..Len(s) |-> Norm(s[i])])
Norm(n) ==
    IF n.k = "t" THEN n
    ELSE IF GuardFirst /\ n.kids = <<>> THEN n                                  \* guard above the attribute loop: nothing is done
    ELSE LET a == IF n.hasattr THEN NormSeq(n.attr) ELSE n.attr                 \* attribute fragments first
         IN IF n.kids = <<>> THEN E(n.kids, n.hasattr, a)                       \* no children: return
            ELSE E(NormSeq(n.kids), n.hasattr, a)

NormalizeIsMerged == Norm(root) = Merged(root)
RECURSIVE NoAdjacentText(_)
NoAdjacentTextSeq(s) == /\ \A i \in 1..(Len(s) - 1) : ~(s[i].k = "t" /\ s[i + 1].k = "t")
                        /\ \A i \in 1..Len(s) : NoAdjacentText(s[i])
NoAdjacentText(n) == n.k = "t" \/ (NoAdjacentTextSeq(n.kids) /\ NoAdjacentTextSeq(n.attr))
NormalizedEverywhere == NoAdjacentText(Norm(root))
Emit == PrintT(<<"BEH", ToJson([root |-> root, after |-> Norm(root)])>>)
=============================================================================

-------------------------------- MODULE Arrays --------------------------------
(***************************************************************************)
(* C10 (tables) -- a tabular keeps its shape: rows, cells, spans, borders.  *)
(*                                                                         *)
(* A table is generated as                                                 *)
(*   spec : the column specification as written -- a sequence of tokens     *)
(*          [t, n, body] with t = "|" | "l" | "c" | "r" | "p" (p{..}) |    *)
(*          "@" (@{..}) | "*" (a repetition *{n}{body})                    *)
(*   rows : each row = [hline (\hline before the row), clines (set of      *)
(*          <<a, b>> written before the row), cells]; a cell is            *)
(*          [span, bars, kind]: span = 1 for an ordinary cell, n for       *)
(*          \multicolumn{n}{bars}{..} with its own specification,          *)
(*          kind = content (empty, word, group, math, nested tabular)      *)
(*   tail : \hline after the last \\ (a rule-only trailing row)            *)
(*                                                                         *)
(* Machine layer: Array.compileColspec (token loop, *-repetition expanded  *)
(* by pushing its tokens back), the cell/row border collection, and        *)
(* Array.applyBorders with BorderCommand.applyBorders' running column      *)
(* counter (colnum advances by colspan), rule-only rows donating to the    *)
(* adjacent row and being dropped.                                         *)
(* Rule layer: per cell, the set of sides a reader of the source expects   *)
(* to be ruled (Expected), from the bars of the column specification, the  *)
(* \hline / \cline commands and the cell's own multicolumn specification.  *)
(***************************************************************************)
EXTENDS Naturals, Sequences, FiniteSets, TLC, Json

CONSTANTS Specs,       \* set of column specifications (as written)
          MaxRows,
          Kinds        \* cell content kinds

(* ---------------- compileColspec ---------------- *)
Col(a) == [align |-> a, left |-> FALSE, right |-> FALSE]
Simple == {"|", "@", "l", "c", "r", "p"}

RECURSIVE Compile(_, _, _)
(* toks: pending tokens (push-back = prepending); out: columns so far; leftbar: a bar was seen before any column *)
Compile(toks, out, leftbar) ==
    IF toks = <<>> THEN (IF leftbar /\ out # <<>> THEN [out EXCEPT ![1].left = TRUE] ELSE out)
    ELSE LET t == Head(toks).t IN
         IF t = "|" THEN (IF out = <<>> THEN Compile(Tail(toks), out, TRUE)
                          ELSE Compile(Tail(toks), [out EXCEPT ![Len(out)].right = TRUE], leftbar))
         ELSE IF t = "@" THEN Compile(Tail(toks), out, leftbar)                  \* @{..}: text between columns
         ELSE IF t \in {"l", "c", "r", "p"} THEN Compile(Tail(toks), Append(out, Col(t)), leftbar)
         ELSE (* a repetition <<"*", n, body>>: the body is pushed back n times *)
              LET n == Head(toks).n
                  body == Head(toks).body
                  rep == IF n = 0 THEN <<>> ELSE IF n = 1 THEN body ELSE IF n = 2 THEN body \o body ELSE body \o body \o body
              IN Compile(rep \o Tail(toks), out, leftbar)

(* rule: the columns and their bars, read off the flattened specification *)
RECURSIVE Flat(_)
Flat(s) == IF s = <<>> THEN <<>>
           ELSE IF Head(s).t \in Simple THEN <<Head(s).t>> \o Flat(Tail(s))
           ELSE LET h == Head(s) IN (IF h.n = 0 THEN <<>> ELSE IF h.n = 1 THEN Flat(h.body) ELSE IF h.n = 2 THEN Flat(h.body) \o Flat(h.body)
                                     ELSE Flat(h.body) \o Flat(h.body) \o Flat(h.body)) \o Flat(Tail(s))
ColIdx(f) == {i \in 1..Len(f) : f[i] \in {"l", "c", "r", "p"}}
NthCol(f, c) == CHOOSE i \in ColIdx(f) : Cardinality({j \in ColIdx(f) : j <= i}) = c
NCols(f) == Cardinality(ColIdx(f))
(* a bar directly after column c (only "@" may stand in between) / before the first column *)
RECURSIVE BarAfter(_, _)
BarAfter(f, i) == IF i > Len(f) THEN FALSE ELSE IF f[i] = "|" THEN TRUE ELSE IF f[i] = "@" THEN BarAfter(f, i + 1) ELSE FALSE
RuleRight(f, c) == LET i == NthCol(f, c) IN
                   \E j \in (i + 1)..Len(f) : f[j] = "|" /\ \A m \in (i + 1)..(j - 1) : f[m] \in {"|", "@"}
RuleLeft(f, c) == c = 1 /\ \E j \in 1..(NthCol(f, 1) - 1) : f[j] = "|"

(* ---------------- generation ---------------- *)
VARIABLES spec, rows, tail, done
vars == <<spec, rows, tail, done>>

CellChoices(ncols) == {[span |-> 1, bars |-> "", kind |-> k] : k \in Kinds}
                      \cup {[span |-> n, bars |-> b, kind |-> "word"] : n \in 2..ncols, b \in {"c", "|c|", "l|"}}
                      \cup {[span |-> 1, bars |-> "|r", kind |-> "word"]}
RECURSIVE RowCells(_, _)
(* all cell sequences whose spans sum to exactly n *)
RowCells(n, ncols) == IF n = 0 THEN {<<>>}
                      ELSE UNION {{<<c>> \o r : r \in RowCells(n - c.span, ncols)} : c \in {x \in CellChoices(ncols) : x.span <= n}}
ClineChoices(ncols) == {{}} \cup {{<<a, a>>} : a \in 1..ncols} \cup {{<<a, ncols>>} : a \in 1..ncols}

Init == spec \in Specs /\ rows = <<>> /\ tail = FALSE /\ done = FALSE
(* the first row ranges over the whole grammar; further rows over a reduced one (ordinary cells, \hline and a
   single-column \cline) -- what matters for later rows is their adjacency to the rule commands around them *)
SimpleCells(n) == IF n = 0 THEN {<<>>} ELSE
                  LET RECURSIVE SC(_) SC(k) == IF k = 0 THEN {<<>>} ELSE {<<[span |-> 1, bars |-> "", kind |-> kd]>> \o r : kd \in {"word", "use"}, r \in SC(k - 1)}
                  IN SC(n)
AddRow == /\ ~done /\ Len(rows) < MaxRows
          /\ LET nc == NCols(Flat(spec)) IN
             \E h \in BOOLEAN,
                cl \in (IF rows = <<>> THEN ClineChoices(nc) ELSE {{}, {<<1, 1>>}}),
                cs \in (IF rows = <<>> THEN RowCells(nc, nc) ELSE SimpleCells(nc)) :
                /\ ~(\A i \in 1..Len(cs) : cs[i].kind = "empty")      \* a row of only blank cells is a rule-only row: not generated
                /\ rows' = Append(rows, [hline |-> h, clines |-> cl, cells |-> cs])
          /\ UNCHANGED <<spec, tail, done>>
Close == /\ ~done /\ rows # <<>> /\ \E t \in BOOLEAN : tail' = t
         /\ done' = TRUE /\ UNCHANGED <<spec, rows>>
Next == AddRow \/ Close
Spec == Init /\ [][Next]_vars

(* ---------------- machine: applyBorders ---------------- *)
Cols == Compile(spec, <<>>, FALSE)

(* BorderCommand.applyBorders over the cells of a row: colnum starts at 1 and advances by colspan;
   a cell is marked when its STARTING column lies in start..end *)
RECURSIVE Marked(_, _, _, _)
Marked(cells, i, colnum, ab) ==
    IF i > Len(cells) THEN {}
    ELSE (IF colnum >= ab[1] /\ colnum <= ab[2] THEN {i} ELSE {}) \cup Marked(cells, i + 1, colnum + cells[i].span, ab)

(* own specification of a multicolumn cell *)
OwnLeft(c) == c.bars \in {"|c|", "|r"}
OwnRight(c) == c.bars \in {"|c|", "l|"}

StartCol(cells, i) == IF i = 1 THEN 1 ELSE 1 + (LET RECURSIVE S(_) S(j) == IF j = 0 THEN 0 ELSE cells[j].span + S(j - 1) IN S(i - 1))

MachBorders(r, i) ==      \* sides of cell i of row r after applyBorders
    LET row == rows[r]
        cell == row.cells[i]
        top == row.hline \/ \E ab \in row.clines : i \in Marked(row.cells, 1, 1, ab)
        bottom == r = Len(rows) /\ tail           \* the trailing rule-only row donates its \hline to the row before it
        sc == StartCol(row.cells, i)
        (* colspec styles: zip(colspec, expanded cells) gives every ordinary cell the style of its column; a
           \multicolumn cell carries its own specification *)
        left == IF cell.bars # "" THEN OwnLeft(cell) ELSE (sc <= Len(Cols) /\ Cols[sc].left)
        right == IF cell.bars # "" THEN OwnRight(cell) ELSE (sc <= Len(Cols) /\ Cols[sc].right)
    IN [top |-> top, bottom |-> bottom, left |-> left, right |-> right]

(* ---------------- rule ---------------- *)
Covers(row, i, ab) == LET sc == StartCol(row.cells, i) IN sc >= ab[1] /\ sc <= ab[2]
Expected(r, i) ==
    LET row == rows[r]
        cell == row.cells[i]
        f == Flat(spec)
        sc == StartCol(row.cells, i)
    IN [top |-> row.hline \/ \E ab \in row.clines : Covers(row, i, ab),
        bottom |-> (r = Len(rows) /\ tail),
        left |-> IF cell.bars # "" THEN OwnLeft(cell) ELSE RuleLeft(f, sc),
        right |-> IF cell.bars # "" THEN OwnRight(cell) ELSE RuleRight(f, sc + cell.span - 1)]

-----------------------------------------------------------------------------
ColspecCompiles == Len(Cols) = NCols(Flat(spec))
                   /\ \A c \in 1..Len(Cols) : Cols[c].right = RuleRight(Flat(spec), c) /\ Cols[c].left = RuleLeft(Flat(spec), c)

BordersOnAdjacentCellsOnly == done => \A r \in 1..Len(rows) : \A i \in 1..Len(rows[r].cells) :
                                        LET m == MachBorders(r, i)
                                            e == Expected(r, i)
                                        IN m.top = e.top /\ m.bottom = e.bottom
                                           /\ (rows[r].cells[i].span = 1 => (m.left = e.left /\ m.right = e.right))

FullRowSpansSumToCols == done => \A r \in 1..Len(rows) :
                            (LET RECURSIVE S(_) S(j) == IF j = 0 THEN 0 ELSE rows[r].cells[j].span + S(j - 1) IN S(Len(rows[r].cells))) = NCols(Flat(spec))

Emit == done => PrintT(<<"BEH", ToJson([spec |-> spec, rows |-> [r \in 1..Len(rows) |->
                          [hline |-> rows[r].hline, clines |-> rows[r].clines,
                           cells |-> [i \in 1..Len(rows[r].cells) |-> [span |-> rows[r].cells[i].span, bars |-> rows[r].cells[i].bars,
                                                                       kind |-> rows[r].cells[i].kind, b |-> MachBorders(r, i)]]]],
                                        tail |-> tail, ncols |-> NCols(Flat(spec))])>>)
=============================================================================

------------------------------ MODULE Counters ------------------------------
(***************************************************************************)
(* C08 -- counters and automatic numbers follow LaTeX's numbering rules.   *)
(*                                                                         *)
(* A document is a history of numbered constructs and explicit counter     *)
(* manipulations.  Machine layer: the counters as plasTeX keeps them       *)
(* (one `resetby` parent per counter, Counter.stepcounter / setcounter /   *)
(* addtocounter with resetcounters recursion, List.invoke's explicit       *)
(* resets of the enumeration counters at \begin and \end, \appendix as     *)
(* setcounter(0) + alphabetic format) and, per construct, where the code   *)
(* steps and what it captures as the printed number.                       *)
(* Rule layer: LaTeX's rules (Lamport, C.8.4): \stepcounter resets every   *)
(* counter declared within the stepped one, transitively; \setcounter and  *)
(* \addtocounter change one counter only; the printed form is              *)
(* \the<counter> of the class.                                             *)
(* A printed number is a sequence of [f, n] components joined by dots:     *)
(* f = "1" arabic, "A" Alph.                                               *)
(***************************************************************************)
EXTENDS Naturals, Integers, Sequences, FiniteSets, TLC, Json

CONSTANTS Classes,      \* subset of {"article", "book"}
          NumDepths,    \* values of sec-num-depth explored
          MaxEvents,
          NewCounterWithin,  \* TRUE: \newcounter{c}[within] really numbers c within the other counter (repaired);
                             \* FALSE: the optional argument is never understood and c is never reset (as built, F40)
          SetResets     \* TRUE: setcounter/addtocounter also reset the dependants (as built, F22);
                        \* FALSE: only stepping resets (repaired, LaTeX)

Ctrs == {"chapter", "section", "subsection", "subsubsection", "equation", "figure", "table",
         "enumi", "enumii", "enumiii", "enumiv", "tha", "thw", "ucw", "ucl"}     \* ucw: \newcounter{ucw}[section] in the preamble; ucl: the same declaration made in the body, after counters have been stepped
None == "none"
Within == [c \in Ctrs |->
             CASE c = "section" -> "chapter" [] c = "subsection" -> "section" [] c = "subsubsection" -> "subsection"
               [] c \in {"equation", "figure", "table"} -> "chapter"
               [] c = "enumii" -> "enumi" [] c = "enumiii" -> "enumii" [] c = "enumiv" -> "enumiii"
               [] c = "thw" -> "section" [] c \in {"ucw", "ucl"} -> "section" [] OTHER -> None]
Enum == <<"enumi", "enumii", "enumiii", "enumiv">>
SecCtr == <<"chapter", "section", "subsection", "subsubsection">>       \* index = level + 1

RECURSIVE Below(_)
(* counters declared within c, transitively *)
Below(c) == LET D == {d \in Ctrs : Within[d] = c} IN D \cup UNION {Below(d) : d \in D}

VARIABLES cls, numdepth,
          val,        \* machine: counter values
          rval,       \* rule layer: counter values under LaTeX's rules
          app,        \* \appendix seen
          depth,      \* List.depth
          items,      \* ghost: per open list, number of \item so far
          printed,    \* machine: printed numbers in document order: [k, num] ; num = <<>> means "no number"
          rprinted,   \* rule layer: the same, from rval
          mustsec,    \* after \appendix the next numbered object must be a top-level unit
          late,       \* \newcounter{ucl}[section] has been met in the body
          n, hist
vars == <<cls, numdepth, val, rval, app, depth, items, printed, rprinted, mustsec, late, n, hist>>
view == <<cls, numdepth, val, rval, app, depth, items, mustsec, late, n, printed, rprinted>>

(* ---- primitive counter operations ---- *)
(* what the machine resets: the user counter's `within` link exists only if \newcounter understood its optional argument *)
MBelow(c) == IF NewCounterWithin THEN Below(c) ELSE Below(c) \ {"ucw"}
MStep(v, c) == [d \in Ctrs |-> IF d = c THEN v[c] + 1 ELSE IF d \in MBelow(c) THEN 0 ELSE v[d]]
MSet(v, c, x) == [d \in Ctrs |-> IF d = c THEN x ELSE IF SetResets /\ d \in MBelow(c) THEN 0 ELSE v[d]]
RStep(v, c) == [d \in Ctrs |-> IF d = c THEN v[c] + 1 ELSE IF d \in Below(c) THEN 0 ELSE v[d]]
RSet(v, c, x) == [v EXCEPT ![c] = x]

(* ---- \the<counter> ---- *)
TopFmt(a) == IF a THEN "A" ELSE "1"
RECURSIVE The(_, _, _, _)
The(v, c, k, a) ==
    CASE c = "chapter" -> <<[f |-> TopFmt(a /\ k = "book"), n |-> v["chapter"]]>>
      [] c = "section" -> IF k = "book" THEN The(v, "chapter", k, a) \o <<[f |-> "1", n |-> v["section"]]>>
                          ELSE <<[f |-> TopFmt(a), n |-> v["section"]]>>
      [] c = "subsection" -> The(v, "section", k, a) \o <<[f |-> "1", n |-> v["subsection"]]>>
      [] c = "subsubsection" -> The(v, "subsection", k, a) \o <<[f |-> "1", n |-> v["subsubsection"]]>>
      [] c = "equation" -> IF k = "book" THEN The(v, "chapter", k, a) \o <<[f |-> "1", n |-> v["equation"]]>>
                           ELSE <<[f |-> "1", n |-> v["equation"]]>>
      [] c \in {"figure", "table"} ->      \* ${thechapter}.${figure} with leading "0." removed
             IF v["chapter"] = 0 /\ ~(a /\ k = "book") THEN <<[f |-> "1", n |-> v[c]]>>
             ELSE The(v, "chapter", k, a) \o <<[f |-> "1", n |-> v[c]]>>
      [] c = "tha" -> <<[f |-> "1", n |-> v["tha"]]>>
      [] c = "thw" -> The(v, "section", k, a) \o <<[f |-> "1", n |-> v["thw"]]>>
      [] OTHER -> <<[f |-> "1", n |-> v[c]]>>

Log(e) == /\ n < MaxEvents /\ n' = n + 1 /\ hist' = Append(hist, e) /\ UNCHANGED <<cls, numdepth>>
          /\ late' = (late \/ e.k = "declare")
Ev(k, a, b, c) == [k |-> k, a |-> a, b |-> b, c |-> c]
Prints(k, num, rnum) == printed' = Append(printed, [k |-> k, num |-> num]) /\ rprinted' = Append(rprinted, [k |-> k, num |-> rnum])

TopLevel == IF cls = "book" THEN 0 ELSE 1

(* ---- constructs ---- *)
Section(l, starred) ==
    /\ l \in TopLevel..3 /\ depth = 0 /\ (mustsec => (l = TopLevel /\ ~starred))
    /\ LET c == SecCtr[l + 1]
           v2 == IF starred THEN val ELSE MStep(val, c)
           r2 == IF starred THEN rval ELSE RStep(rval, c)
           shown == ~starred /\ numdepth >= l
       IN /\ val' = v2 /\ rval' = r2
          /\ Prints("sec", IF shown THEN The(v2, c, cls, app) ELSE <<>>, IF shown THEN The(r2, c, cls, app) ELSE <<>>)
    /\ mustsec' = FALSE
    /\ UNCHANGED <<app, depth, items>>
    /\ Log(Ev("sec", l, IF starred THEN 1 ELSE 0, ""))

Numbered(kind, c) ==
    /\ ~mustsec
    /\ val' = MStep(val, c) /\ rval' = RStep(rval, c)
    /\ Prints(kind, The(MStep(val, c), c, cls, app), The(RStep(rval, c), c, cls, app))
    /\ UNCHANGED <<app, depth, items, mustsec>>

Equation == depth = 0 /\ Numbered("eq", "equation") /\ Log(Ev("eq", 0, 0, ""))
Figure == depth = 0 /\ Numbered("fig", "figure") /\ Log(Ev("fig", 0, 0, ""))
Table == depth = 0 /\ Numbered("tab", "table") /\ Log(Ev("tab", 0, 0, ""))
Theorem(t) == /\ depth = 0 /\ t \in {"own", "shared", "within"}
              /\ Numbered("thm", IF t = "within" THEN "thw" ELSE "tha")
              /\ Log(Ev("thm", 0, 0, t))

(* \stepcounter{ucw} followed by its printed value *)
UserCounter == depth = 0 /\ Numbered("uc", "ucw") /\ Log(Ev("uc", 0, 0, ""))

(* the same declaration made in the document body: from then on ucl is numbered within section *)
DeclareLate == /\ depth = 0 /\ ~late /\ ~mustsec
               /\ UNCHANGED <<val, rval, app, depth, items, printed, rprinted, mustsec>>
               /\ Log(Ev("declare", 0, 0, ""))
UserCounterLate == depth = 0 /\ late /\ Numbered("ucl", "ucl") /\ Log(Ev("ucl", 0, 0, ""))

(* eqnarray with two rows; pat says which rows carry \nonumber.  Every row steps the counter; \nonumber
   takes the step back (addtocounter(-1)) and the row prints nothing *)
EqnArray(pat) ==
    /\ depth = 0 /\ ~mustsec /\ pat \in {<<FALSE, FALSE>>, <<TRUE, FALSE>>, <<FALSE, TRUE>>, <<TRUE, TRUE>>}
    /\ LET v1 == MStep(val, "equation")
           v1b == IF pat[1] THEN MSet(v1, "equation", v1["equation"] - 1) ELSE v1
           v2 == MStep(v1b, "equation")
           v2b == IF pat[2] THEN MSet(v2, "equation", v2["equation"] - 1) ELSE v2
           r1 == RStep(rval, "equation")
           r1b == IF pat[1] THEN RSet(r1, "equation", r1["equation"] - 1) ELSE r1
           r2 == RStep(r1b, "equation")
           r2b == IF pat[2] THEN RSet(r2, "equation", r2["equation"] - 1) ELSE r2
       IN /\ val' = v2b /\ rval' = r2b
          /\ printed' = printed \o <<[k |-> "row", num |-> IF pat[1] THEN <<>> ELSE The(v1, "equation", cls, app)],
                                     [k |-> "row", num |-> IF pat[2] THEN <<>> ELSE The(v2, "equation", cls, app)]>>
          /\ rprinted' = rprinted \o <<[k |-> "row", num |-> IF pat[1] THEN <<>> ELSE The(r1, "equation", cls, app)],
                                       [k |-> "row", num |-> IF pat[2] THEN <<>> ELSE The(r2, "equation", cls, app)]>>
    /\ UNCHANGED <<app, depth, items, mustsec>>
    /\ Log(Ev("eqnarray", IF pat[1] THEN 1 ELSE 0, IF pat[2] THEN 1 ELSE 0, ""))

(* List.invoke: depth first, then setcounter(0) on the counters of all deeper levels *)
RECURSIVE ResetFrom(_, _, _)
ResetFrom(v, i, rule) == IF i > 4 THEN v
                         ELSE ResetFrom(IF rule THEN RSet(v, Enum[i], 0) ELSE MSet(v, Enum[i], 0), i + 1, rule)

BeginList(kind) ==
    /\ kind \in {"enumerate", "itemize"} /\ depth < 3 /\ ~mustsec
    /\ (depth > 0 => items[Len(items)] > 0)              \* a nested list sits inside an item
    /\ depth' = depth + 1
    /\ val' = ResetFrom(val, depth + 2, FALSE) /\ rval' = ResetFrom(rval, depth + 2, TRUE)
    /\ items' = Append(items, 0)
    /\ UNCHANGED <<app, printed, rprinted, mustsec>>
    /\ Log(Ev("begin", 0, 0, kind))

Item ==
    /\ depth > 0
    /\ LET c == Enum[depth] IN
         /\ val' = MStep(val, c) /\ rval' = RStep(rval, c)
         /\ Prints("item", <<[f |-> "1", n |-> MStep(val, c)[c]]>>, <<[f |-> "1", n |-> items[Len(items)] + 1]>>)
    /\ items' = [items EXCEPT ![Len(items)] = @ + 1]
    /\ UNCHANGED <<app, depth, mustsec>>
    /\ Log(Ev("item", 0, 0, ""))

EndList ==
    /\ depth > 0 /\ items[Len(items)] > 0
    /\ depth' = depth - 1
    /\ val' = ResetFrom(val, depth, FALSE) /\ rval' = ResetFrom(rval, depth, TRUE)
    /\ items' = SubSeq(items, 1, Len(items) - 1)
    /\ UNCHANGED <<app, printed, rprinted, mustsec>>
    /\ Log(Ev("end", 0, 0, ""))

Appendix ==
    /\ depth = 0 /\ ~app
    /\ LET c == IF cls = "book" THEN "chapter" ELSE "section" IN
         val' = MSet(val, c, 0) /\ rval' = RSet(rval, c, 0)
    /\ app' = TRUE /\ mustsec' = TRUE
    /\ UNCHANGED <<depth, items, printed, rprinted>>
    /\ Log(Ev("appendix", 0, 0, ""))

Manip(op, c, x) ==
    /\ depth = 0 /\ ~mustsec
    /\ \/ (c \in {"section", "subsection", "equation"} /\ <<op, x>> \in {<<"set", 5>>, <<"add", 2>>, <<"step", 0>>})
       \/ (c = "chapter" /\ cls = "book" /\ <<op, x>> = <<"set", 9>>)     \* the next chapter is number 10: a zero inside a number
    /\ CASE op = "set" -> val' = MSet(val, c, x) /\ rval' = RSet(rval, c, x)
         [] op = "add" -> val' = MSet(val, c, val[c] + x) /\ rval' = RSet(rval, c, rval[c] + x)
         [] op = "step" -> val' = MStep(val, c) /\ rval' = RStep(rval, c)
    /\ UNCHANGED <<app, depth, items, printed, rprinted, mustsec>>
    /\ Log(Ev(op, x, 0, c))

Init == /\ cls \in Classes /\ numdepth \in NumDepths
        /\ val = [c \in Ctrs |-> 0] /\ rval = [c \in Ctrs |-> 0]
        /\ app = FALSE /\ depth = 0 /\ items = <<>> /\ printed = <<>> /\ rprinted = <<>> /\ mustsec = FALSE
        /\ late = FALSE /\ n = 0 /\ hist = <<>>

Next == \/ \E l \in 0..3, s \in BOOLEAN : Section(l, s)
        \/ Equation \/ Figure \/ Table \/ UserCounter \/ DeclareLate \/ UserCounterLate \/ Item \/ EndList \/ Appendix
        \/ \E t \in {"own", "shared", "within"} : Theorem(t)
        \/ \E p \in {<<FALSE, FALSE>>, <<TRUE, FALSE>>, <<FALSE, TRUE>>, <<TRUE, TRUE>>} : EqnArray(p)
        \/ \E k \in {"enumerate", "itemize"} : BeginList(k)
        \/ \E ox \in {<<"set", 5>>, <<"add", 2>>, <<"step", 0>>, <<"set", 9>>}, c \in {"section", "subsection", "equation", "chapter"} : Manip(ox[1], c, ox[2])

Spec == Init /\ [][Next]_vars

-----------------------------------------------------------------------------
(* stepping a counter resets every counter declared within it, transitively *)
TransitiveReset ==
    [][\A c \in Ctrs : (val'[c] = val[c] + 1 /\ hist' # hist /\ hist'[Len(hist')].k \notin {"set", "add", "eqnarray"})
            => \A d \in Below(c) : val'[d] = 0]_vars

(* the printed numbers are the ones LaTeX's rules give *)
NumbersAreLaTeX == printed = rprinted

(* enumerate items count 1, 2, 3, ... within their list: the rule layer prints the ghost count `items`,
   so this is part of NumbersAreLaTeX; starred and too-deep units print <<>> on both layers by construction of
   Section, and the code's behaviour there is checked by the replay *)

Closed == depth = 0
EmitState == Closed => PrintT(<<"BEH", ToJson([cls |-> cls, numdepth |-> numdepth, h |-> hist, printed |-> printed])>>)
=============================================================================

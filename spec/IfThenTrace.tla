----------------------------- MODULE IfThenTrace -----------------------------
(***************************************************************************)
(* Trace validation for C19: each line of TRACE_FILE is a test that was    *)
(* run on the real \ifthenelse -- {"toks": [...], "obs": "Y"|"N"|"E"}.     *)
(* TLC runs the evaluator machine on exactly those tokens; the observed    *)
(* branch must be the machine's result (ObservedIsMachine), and the        *)
(* machine must not underflow.                                             *)
(***************************************************************************)
EXTENDS IfThen, IOUtils

Traces == ndJsonDeserialize(IOEnv.TRACE_FILE)

VARIABLE tid
TraceInit == /\ tid \in 1..Len(Traces)
             /\ expr = <<"T">> /\ full = FALSE
             /\ toks = Traces[tid].toks
             /\ ops = <<>> /\ postfix = <<>> /\ vals = <<>> /\ phase = "convert" /\ result = FALSE

TraceNext == Next /\ UNCHANGED tid

ObservedIsMachine == phase = "done" => Traces[tid].obs = (IF result THEN "Y" ELSE "N")
=============================================================================

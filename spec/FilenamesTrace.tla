--------------------------- MODULE FilenamesTrace ---------------------------
(***************************************************************************)
(* Trace validation for C15: call/return events recorded from the real     *)
(* plasTeX.Filenames are checked against the Filenames machine.  Many      *)
(* traces are validated in one TLC run (one initial state per trace).      *)
(*                                                                         *)
(* TRACE_FILE: ndjson, one trace per line:                                 *)
(*   {"t": {"id":..,"statics":[..],"wild":[..]},                           *)
(*    "c": {"id":..,"bad":[..],"repl":[..],"ext":[..],"reserved":[..],"g":{..}}, *)
(*    "ev": [{"b": {var: value|["UNBOUND"]}, "r": name|["ERROR"]|["NONE"]}, ...]} *)
(***************************************************************************)
EXTENDS Filenames, IOUtils, TLCExt

VARIABLES tid, l

Traces == ndJsonDeserialize(IOEnv.TRACE_FILE)

SetOf(q) == {q[j] : j \in 1..Len(q)}

CfgOf(c) == [id |-> c.id, bad |-> SetOf(c.bad), repl |-> c.repl, ext |-> c.ext,
             reserved |-> SetOf(c.reserved), g |-> c.g]

Ev == Traces[tid].ev

TraceInit == /\ tid \in 1..Len(Traces)
             /\ l = 1
             /\ tp = Traces[tid].t
             /\ cf = CfgOf(Traces[tid].c)
             /\ si = 1 /\ alt = 1 /\ num = 1 /\ issued = Reserved /\ ns = G /\ g0 = G /\ passes = 0
             /\ phase = "idle" /\ last = NoneResult /\ nreq = 0 /\ cur = G
             /\ pre = [si |-> 1, num |-> 1, issued |-> Reserved]
             /\ hist = <<>>

Returns == last' = Ev[l].r /\ l' = l + 1

TraceNext ==
    /\ l <= Len(Ev)
    /\ UNCHANGED tid
    /\ \/ Request(Ev[l].b) /\ UNCHANGED l
       \/ RequestAfterError(Ev[l].b) /\ Returns
       \/ (StaticSkipUnbound \/ StaticSkipTaken \/ StaticExhausted \/ AltUnbound \/ AltTaken \/ PassExhausted)
            /\ UNCHANGED l
       \/ (StaticIssue \/ AltIssue \/ GiveUp) /\ Returns

TraceSpec == TraceInit /\ [][TraceNext]_<<vars, tid, l>>

(* per-trace progress register: highest l reached *)
ASSUME \A t \in 1..Len(Traces) : TLCSet(t, 1)
Progress == IF l > TLCGet(tid) THEN TLCSet(tid, l) ELSE TRUE

Rejected == {t \in 1..Len(Traces) : TLCGet(t) # Len(Traces[t].ev) + 1}
(* the verdict is total: the harness reads the REJ line (rejected trace -> longest matched prefix) *)
TraceAccepted == PrintT(<<"REJ", ToJson([x \in Rejected |-> TLCGet(x)])>>)
=============================================================================

------------------------------ MODULE MathSource ------------------------------
(***************************************************************************)
(* C11 (mathematics) -- the LaTeX source reconstructed for a formula is,   *)
(* blanks aside, token for token what the author wrote with user macros    *)
(* expanded.                                                               *)
(*                                                                         *)
(* Rule layer: a grammar of formula trees (symbols, control words, scripts *)
(* with a single token or a group, primes, \frac, \sqrt with optional      *)
(* index, \left..\right, \mbox with text and nested math, spacing          *)
(* commands, calls of user macros), Written(f) = the token list the author *)
(* types, Expected(f) = the same with user macros replaced by their bodies *)
(* (\vma#1 -> #1^{2}, \vmb -> \beta_{0}).  TLC enumerates every formula    *)
(* up to a depth and prints both lists; the harness parses the written     *)
(* form in each math container, re-tokenizes node.source with the real     *)
(* Tokenizer and compares with Expected.  (The reconstruction itself is a  *)
(* pure function of the parsed tree; TLC is the enumerator and the         *)
(* reference evaluator here.)                                              *)
(***************************************************************************)
EXTENDS Naturals, Sequences, FiniteSets, TLC, Json
CONSTANTS Depth

Atoms == {<<"x">>, <<"1">>, <<"+">>, <<"\\alpha">>, <<"\\,">>, <<"\\vmb">>, <<"x", "'">>, <<"<">>}

RECURSIVE F(_)
(* a formula is a record [w |-> written tokens, e |-> expected tokens] *)
Atom(a) == [w |-> a, e |-> IF a = <<"\\vmb">> THEN <<"\\beta", "_", "{", "0", "}">> ELSE a]
Grp(f) == [w |-> <<"{">> \o f.w \o <<"}">>, e |-> <<"{">> \o f.e \o <<"}">>]
Cat(f, g) == [w |-> f.w \o g.w, e |-> f.e \o g.e]
Pre(t, f) == [w |-> t \o f.w, e |-> t \o f.e]
F(d) == IF d = 0 THEN {Atom(a) : a \in Atoms}
        ELSE LET S == F(d - 1)
                 B == {Atom(<<"x">>), Atom(<<"\\alpha">>)}
             IN S \cup {Cat(b, Pre(<<"^">>, Grp(s))) : b \in B, s \in S}
                  \cup {Cat(b, Pre(<<"_">>, Grp(s))) : b \in B, s \in S}
                  \cup {Cat(b, Pre(<<"^">>, Atom(<<"1">>))) : b \in S}
                  \cup {Pre(<<"\\frac">>, Cat(Grp(s), Grp(t))) : s \in S, t \in B}
                  \cup {Pre(<<"\\sqrt">>, Grp(s)) : s \in S}
                  \cup {Pre(<<"\\sqrt", "[", "3", "]">>, Grp(s)) : s \in S}
                  \cup {[w |-> <<"\\left", "(">> \o s.w \o <<"\\right", ")">>, e |-> <<"\\left", "(">> \o s.e \o <<"\\right", ")">>] : s \in S}
                  \cup {[w |-> <<"\\mbox", "{", "i", "f", " ", "$">> \o s.w \o <<"$", "}">>,
                         e |-> <<"\\mbox", "{", "i", "f", " ", "$">> \o s.e \o <<"$", "}">>] : s \in S}
                  \cup {[w |-> <<"\\vma">> \o Grp(s).w, e |-> s.e \o <<"^", "{", "2", "}">>] : s \in S}
                  \cup {Cat(s, Cat([w |-> <<"\\mbox", "{", "\\textit", "{", "i", "f", "}", "}">>, e |-> <<"\\mbox", "{", "\\textit", "{", "i", "f", "}", "}">>], t))
                          : s \in B, t \in B}                                    \* a text box directly inside a text box
                  \cup {[w |-> <<"\\mbox", "{", "i", "f", " ", "\\textit", "{", "a", "}", " ", "$">> \o s.w \o <<"$", "}">>,
                         e |-> <<"\\mbox", "{", "i", "f", " ", "\\textit", "{", "a", "}", " ", "$">> \o s.e \o <<"$", "}">>] : s \in B}
                                                                                  \* ... followed, still inside the outer box, by inner mathematics
                  \cup {Cat(Grp(Cat(s, Atom(<<"-", "-">>))), t) : s \in B, t \in S}   \* a bare group with ligature-like text
                  \cup {Cat(s, t) : s \in B, t \in S}

VARIABLES f, emitted
Init == f \in F(Depth) /\ emitted = FALSE
Next == ~emitted /\ emitted' = TRUE /\ UNCHANGED f
(* sanity of the rule layer: expansion only ever replaces user macros *)
NoUserMacroLeft == \A i \in 1..Len(f.e) : f.e[i] \notin {"\\vma", "\\vmb"}
Emit == emitted => PrintT(<<"BEH", ToJson(f)>>)
=============================================================================

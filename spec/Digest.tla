-------------------------------- MODULE Digest --------------------------------
(***************************************************************************)
(* C07 -- parsing loses, duplicates or reorders no text and yields a       *)
(* well-formed tree.                                                       *)
(*                                                                         *)
(* Phase "gen": a bounded NF-DOC grammar produces the stream of expanded   *)
(* items the parser's digest stage sees -- words, \par, sectioning         *)
(* commands, environment begins/ends (quote, center, itemize), \item,      *)
(* group begins/ends, commands with a text argument (\textbf, \footnote)   *)
(* -- each stamped with its hierarchy LEVEL and with the CONTEXT DEPTH in  *)
(* force when the item was last read (after its own push or pop), exactly  *)
(* as TeX.itertokens stamps them.  While generating, the rule layer        *)
(* records for every item its intended container (the author's view of the *)
(* document).                                                              *)
(* Phase "run": the machine layer -- the digest protocol -- consumes the   *)
(* stream: a stack of open nodes, each absorbing items by the rule of its  *)
(* class (TeX.parse, SectionUtils.digest, Environment.digest,              *)
(* bgroup.digest, List.item.digest = digestUntil(item)), pushing back the  *)
(* item that does not belong to it.                                        *)
(* Paragraph nodes are not modelled (they are transparent for containment; *)
(* the harness checks the paragraph clauses on the real tree).             *)
(***************************************************************************)
EXTENDS Naturals, Sequences, FiniteSets, TLC, Json

CONSTANTS MaxItems, MaxDepth

CHARLVL == 1001  PARLVL == 101  ENVLVL == 201  ENDSECTIONS == 100

VARIABLES phase,
          stream,     \* generated items: [k, lvl, cd, ty]  (id = position)
          intended,   \* rule layer: item id -> container id (0 = document) ; closers map to 0 and are ignored
          open,       \* gen: stack of open constructs [id, k, lvl, ty]
          D,          \* gen: current context depth
          q,          \* run: index of the next item to read (push-back = not advancing)
          stack,      \* run: frames [node, k, lvl, cd, ty]
          parent,     \* run: item id -> node that absorbed it
          kids        \* run: node -> children in absorption order
vars == <<phase, stream, intended, open, D, q, stack, parent, kids>>

Item(k, lvl, cd, ty) == [k |-> k, lvl |-> lvl, cd |-> cd, ty |-> ty]
Top(s) == s[Len(s)]
Pop(s) == SubSeq(s, 1, Len(s) - 1)
DocOpen == [id |-> 0, k |-> "doc", lvl |-> 0, ty |-> "", d0 |-> 2]

Closers == {"enve", "grpe"}
Containers == {"sec", "envb", "grpb", "item", "decl"}

Init == /\ phase = "gen" /\ stream = <<>> /\ intended = <<>> /\ open = <<DocOpen>> /\ D = 2
        /\ q = 1 /\ stack = <<>> /\ parent = <<>> /\ kids = <<>>

Add(it, par, newopen, newD) ==
    /\ Len(stream) < MaxItems
    /\ stream' = Append(stream, it) /\ intended' = Append(intended, par)
    /\ open' = newopen /\ D' = newD
    /\ UNCHANGED <<phase, q, stack, parent, kids>>

InBlockContext == Top(open).k \in {"doc", "sec", "envb", "item", "decl"}
RECURSIVE StripDecls(_)
StripDecls(o) == IF Top(o).k = "decl" THEN StripDecls(Pop(o)) ELSE o
(* only sections are open, possibly with font declarations made directly in a section body on top *)
OnlySectionsOpen == \A i \in 1..Len(open) : open[i].k \in {"doc", "sec", "decl"}
NoListOpen == \A i \in 1..Len(open) : open[i].k # "item" /\ ~(open[i].k = "envb" /\ open[i].ty = "itemize")
NDecls == Cardinality({i \in 1..Len(stream) : stream[i].k = "decl"})

GWord == phase = "gen" /\ (Top(open).k = "envb" => Top(open).ty # "itemize")
         /\ Add(Item("word", CHARLVL, D, ""), Top(open).id, open, D)
GCmd == phase = "gen" /\ (Top(open).k = "envb" => Top(open).ty # "itemize")
        /\ Add(Item("cmd", CHARLVL, D, ""), Top(open).id, open, D)
GPar == phase = "gen" /\ InBlockContext /\ (Top(open).k = "envb" => Top(open).ty # "itemize")
        /\ stream # <<>> /\ stream[Len(stream)].k \in {"word", "cmd", "grpe", "enve", "scmd"}
        /\ Add(Item("par", PARLVL, D, ""), Top(open).id, open, D)

RECURSIVE CloseSecs(_, _)
CloseSecs(o, l) == IF Top(o).k = "sec" /\ Top(o).lvl >= l THEN CloseSecs(Pop(o), l) ELSE o
(* a font declaration (\bfseries, \itshape): an environment without an end; it pushes a context frame and holds
   everything up to the end of the enclosing group / environment or the next sectioning command *)
GDecl == /\ phase = "gen" /\ NoListOpen /\ NDecls < 2 /\ Len(open) < MaxDepth + 2
         /\ Add(Item("decl", ENVLVL, D + 1, "decl"), Top(open).id,
                Append(open, [id |-> Len(stream) + 1, k |-> "decl", lvl |-> ENVLVL, ty |-> "decl", d0 |-> D]), D + 1)

GSec(l) == /\ phase = "gen" /\ OnlySectionsOpen /\ l \in 1..3
           /\ LET o == CloseSecs(StripDecls(open), l)
                  id == Len(stream) + 1
              IN Add(Item("sec", l, D, ""), Top(o).id, Append(o, [id |-> id, k |-> "sec", lvl |-> l, ty |-> "", d0 |-> D]), D)

(* a section-level command that holds no content of its own (\printindex): it ends the open sectioning units of its level
   like a section does, but what follows it belongs to the enclosing unit again *)
NSCmds == Cardinality({i \in 1..Len(stream) : stream[i].k = "scmd"})
GSCmd == /\ phase = "gen" /\ OnlySectionsOpen /\ NSCmds < 1
         /\ LET o == CloseSecs(StripDecls(open), 1)
            IN Add(Item("scmd", 1, D, ""), Top(o).id, o, D)

GEnvBegin(e) == /\ phase = "gen" /\ InBlockContext /\ (Top(open).k = "envb" => Top(open).ty # "itemize")
                /\ Len(open) < MaxDepth + 1 /\ e \in {"quote", "itemize"}
                /\ Add(Item("envb", ENVLVL, D + 1, e), Top(open).id,
                       Append(open, [id |-> Len(stream) + 1, k |-> "envb", lvl |-> ENVLVL, ty |-> e, d0 |-> D]), D + 1)
GItem == /\ phase = "gen"
         /\ \/ (Top(open).k = "envb" /\ Top(open).ty = "itemize")
            \/ (Top(open).k = "item")
         /\ LET o == IF Top(open).k = "item" THEN Pop(open) ELSE open IN
            Add(Item("item", CHARLVL, D, ""), Top(o).id, Append(o, [id |-> Len(stream) + 1, k |-> "item", lvl |-> CHARLVL, ty |-> "", d0 |-> D]), D)
GEnvEnd == /\ phase = "gen"
           /\ LET s == StripDecls(open) IN
              /\ \/ (Top(s).k = "envb" /\ Top(s).ty = "quote" /\ stream[Len(stream)].k # "envb")
                 \/ (Top(s).k = "item" /\ stream[Len(stream)].k # "item")
              /\ LET o == IF Top(s).k = "item" THEN Pop(s) ELSE s IN
                 Add(Item("enve", ENVLVL, Top(o).d0, Top(o).ty), 0, Pop(o), Top(o).d0)
GGrpBegin == /\ phase = "gen" /\ Len(open) < MaxDepth + 1 /\ (Top(open).k = "envb" => Top(open).ty # "itemize")
             /\ Add(Item("grpb", CHARLVL, D + 1, ""), Top(open).id,
                    Append(open, [id |-> Len(stream) + 1, k |-> "grpb", lvl |-> CHARLVL, ty |-> "", d0 |-> D]), D + 1)
GGrpEnd == /\ phase = "gen" /\ Top(StripDecls(open)).k = "grpb"
           /\ LET o == StripDecls(open) IN Add(Item("grpe", CHARLVL, Top(o).d0, ""), 0, Pop(o), Top(o).d0)

(* the document is complete when only sections are open *)
GDone == /\ phase = "gen" /\ OnlySectionsOpen /\ stream # <<>>
         /\ phase' = "run" /\ stack' = <<[node |-> 0, k |-> "doc", lvl |-> 0, cd |-> 0, ty |-> ""]>>
         /\ parent' = [i \in 1..Len(stream) |-> 0 - 1] /\ kids' = [i \in 0..Len(stream) |-> <<>>]
         /\ UNCHANGED <<stream, intended, open, D, q>>

(* ---------------- the digest protocol ---------------- *)
F == Top(stack)
It == stream[q]
IsElement(it) == it.k # "word"

PopFrame == stack' = Pop(stack) /\ UNCHANGED <<q, parent, kids>>
Consume == q' = q + 1
Absorb == /\ parent' = [parent EXCEPT ![q] = F.node]
          /\ kids' = [kids EXCEPT ![F.node] = Append(@, q)]
          /\ Consume
          /\ stack' = IF It.k \in Containers
                      THEN Append(stack, [node |-> q, k |-> It.k, lvl |-> It.lvl, cd |-> It.cd, ty |-> It.ty])
                      ELSE stack

Run ==
    /\ phase = "run"
    /\ UNCHANGED <<phase, stream, intended, open, D>>
    /\ (q <= Len(stream) \/ Len(stack) > 1)
    /\ IF q > Len(stream)
       THEN PopFrame                                                                      \* end of input closes every open node
       ELSE CASE F.k = "doc" -> Absorb                                                    \* TeX.parse
              [] F.k = "sec" -> IF It.lvl <= F.lvl THEN PopFrame ELSE Absorb              \* SectionUtils.digest
              [] F.k \in {"envb", "decl"} ->                                                \* Environment.digest
                    IF It.k = "par" THEN Absorb
                    ELSE IF It.lvl < F.lvl THEN PopFrame
                    ELSE IF It.k = "enve" /\ It.ty = F.ty THEN (Consume /\ stack' = Pop(stack) /\ UNCHANGED <<parent, kids>>)
                    ELSE IF It.cd < F.cd THEN PopFrame
                    ELSE Absorb
              [] F.k = "grpb" ->                                                          \* bgroup.digest
                    IF IsElement(It) /\ It.lvl < ENDSECTIONS THEN PopFrame
                    ELSE IF It.k = "grpe" THEN (Consume /\ stack' = Pop(stack) /\ UNCHANGED <<parent, kids>>)
                    ELSE IF IsElement(It) /\ It.cd < F.cd THEN PopFrame
                    ELSE Absorb
              [] F.k = "item" ->                                                          \* digestUntil(List.item)
                    IF It.k = "item" THEN PopFrame
                    ELSE IF It.cd < F.cd THEN PopFrame
                    ELSE Absorb

Finish == /\ phase = "run" /\ q > Len(stream) /\ Len(stack) = 1
          /\ phase' = "done" /\ UNCHANGED <<stream, intended, open, D, q, stack, parent, kids>>

Next == GWord \/ GCmd \/ GPar \/ GDecl \/ GSCmd \/ GEnvEnd \/ GItem \/ GGrpBegin \/ GGrpEnd \/ GDone \/ Run \/ Finish
        \/ (\E l \in 1..3 : GSec(l)) \/ (\E e \in {"quote", "itemize"} : GEnvBegin(e))
Spec == Init /\ [][Next]_vars

-----------------------------------------------------------------------------
Real == {i \in 1..Len(stream) : stream[i].k \notin Closers}

(* the tree the digest protocol builds is the author's document *)
DigestBuildsIntended == phase = "done" => \A i \in Real : parent[i] = intended[i]

(* every item is absorbed exactly once, children are in source order *)
OnceInOrder == phase = "done" =>
    /\ \A i \in Real : Cardinality({n \in 0..Len(stream) : \E j \in 1..Len(kids[n]) : kids[n][j] = i}) = 1
    /\ \A n \in 0..Len(stream) : \A a, b \in 1..Len(kids[n]) : a < b => kids[n][a] < kids[n][b]
    /\ \A i \in 1..Len(stream) : stream[i].k \in Closers => parent[i] = 0 - 1            \* closers are consumed, not kept

(* sectioning units contain only strictly deeper units (besides text material) *)
SectionsNestByLevel == phase = "done" =>
    \A i \in Real : stream[i].k = "sec" => (parent[i] = 0 \/ (stream[parent[i]].k = "sec" /\ stream[parent[i]].lvl < stream[i].lvl))

(* the machine never has to push back an element it has already digested (soundness of the abstraction) *)
NeverStuck == (phase = "run" /\ q <= Len(stream)) => ENABLED Run

RECURSIVE Chain(_)
Chain(i) == IF i = 0 THEN <<>> ELSE Chain(parent[i]) \o <<i>>
Emit == phase = "done" => PrintT(<<"BEH", ToJson([stream |-> stream, parent |-> [i \in 1..Len(stream) |-> IF parent[i] = 0 - 1 THEN 0 ELSE parent[i]]])>>)
=============================================================================

"""Shared plumbing for property drivers: result collection, known findings, evidence, exit codes."""
import hashlib
import json
import os
import sys
import time
import traceback

HERE = os.path.dirname(os.path.abspath(__file__))
VERIF = os.path.dirname(HERE)
REPO = os.environ.get('VERIF_REPO', '/repo')
EVIDENCE_DIR = os.path.join(VERIF, 'evidence')
REPLAY_DIR = os.path.join(VERIF, 'replays')
FINDINGS_FILE = os.path.join(VERIF, 'known_findings.json')


def setup_repo_path():
    """Make the working tree of the repository importable (first on sys.path) and enable hooks."""
    os.environ.setdefault('PLASTEX_VERIF', '1')
    if REPO not in sys.path:
        sys.path.insert(0, REPO)
    import logging
    logging.disable(logging.CRITICAL)


def h(obj):
    return hashlib.sha1(json.dumps(obj, sort_keys=True, default=str).encode()).hexdigest()[:16]


class MachineryError(Exception):
    pass


class Check(object):
    """Collects what one run of one property check covered and decides the exit code."""

    def __init__(self, pid, tier, seed, level='model_checking'):
        self.pid = pid
        self.tier = tier
        self.seed = seed
        self.level = level
        self.t0 = time.time()
        self.states = 0
        self.transitions = 0
        self.traces = 0            # behaviours replayed into the code + traces validated by TLC
        self.evaluations = 0
        self.distinct = set()
        self.samples = []
        self.extra = {}
        self.assumptions = []
        self.rule = ''
        self.exhaustive = False
        self.violations = []       # (signature, what, payload)
        self.known_hit = {}        # signature -> what
        self.viol_count = {}
        self.tlc_runs = []
        self.actions = {}
        with open(FINDINGS_FILE) as f:
            self.findings = json.load(f)
        self.known = {}
        for e in self.findings:
            if e.get('property') == pid and e.get('status') == 'known':
                self.known[e['signature']] = e

    # -- accounting --------------------------------------------------------
    def add_tlc(self, res, label):
        self.states += res.distinct
        self.transitions += res.generated
        self.tlc_runs.append({'label': label, 'distinct_states': res.distinct,
                              'states_generated': res.generated, 'depth': res.depth,
                              'wall_s': round(res.wall, 2)})
        for k, v in res.coverage.items():
            old = self.actions.get(k, 0)
            self.actions[k] = old + v[1]
        never = sorted(k for k, v in res.coverage.items() if v[1] == 0)
        if never:
            self.extra.setdefault('actions_never_taken', {})[label] = never

    def case(self, key, nontrivial=True, sample=None):
        """Count one evaluated case; key identifies it for distinctness."""
        self.evaluations += 1
        if nontrivial:
            self.distinct.add(h(key))
        if sample is not None and len(self.samples) < 6:
            self.samples.append(sample)

    def violation(self, signature, what, payload=None):
        """Report a violation.  signature: short string identifying the failing input class /
        call site; matched against known_findings.json."""
        if signature in self.known:
            if signature not in self.known_hit:
                self.known_hit[signature] = self.known[signature].get('what', what)
            return False
        self.viol_count[signature] = self.viol_count.get(signature, 0) + 1
        if self.viol_count[signature] == 1:
            self.violations.append((signature, what, payload))
        return True

    # -- finishing ---------------------------------------------------------
    def finish(self):
        os.makedirs(EVIDENCE_DIR, exist_ok=True)
        wall = time.time() - self.t0
        for sig, what in sorted(self.known_hit.items()):
            print('KNOWN-FINDING: property=%s %s [%s]' % (self.pid, what, sig))
        nviol = len(self.violations)
        replay_paths = []
        if nviol:
            d = os.path.join(REPLAY_DIR, self.pid)
            os.makedirs(d, exist_ok=True)
            seen = set()
            for sig, what, payload in self.violations:
                if sig in seen:
                    continue
                seen.add(sig)
                path = os.path.join(d, '%s.json' % h([sig, what]))
                with open(path, 'w') as f:
                    json.dump({'property': self.pid, 'signature': sig, 'what': what,
                               'payload': payload}, f, indent=1, default=str)
                replay_paths.append(path)
                print('VIOLATION property=%s replay=%s' % (self.pid, path))
                print('  signature: %s (%d cases)' % (sig, self.viol_count.get(sig, 1)))
                print('  what: %s' % what[:1000])
        cov = {
            'states': self.states,
            'transitions': self.transitions,
            'traces_validated_against_impl': self.traces,
            'evaluations': self.evaluations,
            'distinct_nontrivial': len(self.distinct),
            'rule': self.rule,
            'samples': self.samples[:6] or ['(none)'],
            'exhaustive': self.exhaustive,
            'tlc_runs': self.tlc_runs,
            'action_counts': self.actions,
            'known_findings_hit': sorted(self.known_hit),
        }
        cov.update(self.extra)
        ev = {
            'property_id': self.pid,
            'tier': self.tier,
            'seed': self.seed,
            'level': self.level,
            'coverage': cov,
            'assumptions': self.assumptions,
            'wall_s': round(wall, 2),
            'violations': nviol,
        }
        with open(os.path.join(EVIDENCE_DIR, '%s.json' % self.pid), 'w') as f:
            json.dump(ev, f, indent=1, default=str)
        print('%s tier=%s seed=%s states=%d transitions=%d traces=%d evaluations=%d distinct=%d known=%d violations=%d wall=%.1fs'
              % (self.pid, self.tier, self.seed, self.states, self.transitions, self.traces,
                 self.evaluations, len(self.distinct), len(self.known_hit), nviol, wall))
        return 1 if nviol else 0


def _limit_as(nbytes):
    import resource
    resource.setrlimit(resource.RLIMIT_AS, (nbytes, nbytes))


def pmap(fn, items, procs=16, chunksize=1, mem_limit=None):
    """Parallel map with fork (the repo is imported in the children)."""
    import multiprocessing as mp
    if not items:
        return []
    ctx = mp.get_context('fork')
    kw = {}
    if mem_limit:
        kw = dict(initializer=_limit_as, initargs=(mem_limit,))
    with ctx.Pool(min(procs, len(items)), **kw) as pool:
        return pool.map(fn, items, chunksize)

"""Running TLC from Python: model checking, simulation, behaviour export, trace validation.

All scratch goes to a mkdtemp directory that is removed afterwards; nothing is
written under /verif/spec.  The specs are copied to the scratch directory so that
generated MC_*.tla / *.cfg files and TLC's states/ directories never pollute the
repository.
"""
import json
import os
import re
import shutil
import subprocess
import tempfile
import time

HERE = os.path.dirname(os.path.abspath(__file__))
VERIF = os.path.dirname(HERE)
SPEC_DIR = os.path.join(VERIF, 'spec')
JAR = '/opt/veriftools/tla/tla2tools.jar'
DEPS = '/opt/veriftools/tla/CommunityModules-deps.jar'


class TLCError(Exception):
    """The machinery itself failed (parse error, TLC crash, timeout)."""


class TLCResult(object):
    def __init__(self):
        self.rc = None
        self.out = ''
        self.generated = 0
        self.distinct = 0
        self.depth = 0
        self.violated = []      # names of violated invariants / properties
        self.deadlock = False
        self.beh = []           # parsed JSON payloads of BEH lines
        self.prints = []        # other PrintT payloads tagged with a string: (tag, json)
        self.coverage = {}      # action name -> (distinct, total)
        self.wall = 0.0
        self.trace_text = ''    # counterexample text if any

    @property
    def ok(self):
        return self.rc == 0 and not self.violated and not self.deadlock


def to_tla(v):
    """Python value -> TLA+ literal.  dict -> record (string keys) ; list/tuple -> sequence;
    set/frozenset -> set; bool/int/str obvious."""
    if isinstance(v, bool):
        return 'TRUE' if v else 'FALSE'
    if isinstance(v, int):
        return str(v)
    if isinstance(v, str):
        return '"' + v.replace('\\', '\\\\').replace('"', '\\"') + '"'
    if isinstance(v, (list, tuple)):
        return '<<' + ', '.join(to_tla(x) for x in v) + '>>'
    if isinstance(v, (set, frozenset)):
        return '{' + ', '.join(sorted(to_tla(x) for x in v)) + '}'
    if isinstance(v, dict):
        if not v:
            return '<<>>'
        if all(isinstance(k, str) for k in v):
            return '[' + ', '.join('%s |-> %s' % (k, to_tla(x)) for k, x in v.items()) + ']'
        return '(' + ' @@ '.join('%s :> %s' % (to_tla(k), to_tla(x)) for k, x in v.items()) + ')'
    if v is None:
        return '"None"'
    raise TypeError('cannot convert %r to TLA+' % (v,))


_BEH_RE = re.compile(r'^<<"([A-Z]+)", "(.*)">>$')


def _unescape_tla_string(s):
    # TLC prints strings with \" and \\ escapes
    out = []
    i = 0
    n = len(s)
    while i < n:
        c = s[i]
        if c == '\\' and i + 1 < n:
            d = s[i + 1]
            if d == 'n':
                out.append('\n')
            elif d == 't':
                out.append('\t')
            else:
                out.append(d)
            i += 2
        else:
            out.append(c)
            i += 1
    return ''.join(out)


def make_workdir(prefix='verif-tlc-'):
    d = tempfile.mkdtemp(prefix=prefix)
    for f in os.listdir(SPEC_DIR):
        if f.endswith('.tla') or f.endswith('.cfg'):
            shutil.copy(os.path.join(SPEC_DIR, f), os.path.join(d, f))
    return d


def run(module, cfg_text=None, cfg=None, workdir=None, workers=None, simulate=None,
        depth=None, seed=None, env=None, timeout=900, deadlock=None, coverage=None,
        extra_modules=None, dfs=False, heap='4g', keep=False, want_beh=True, stack=None):
    """Run TLC on `module` (name without .tla; must exist in spec/ or in extra_modules).

    cfg_text  -- contents of the .cfg to use (written as MC.cfg in the scratch dir), or
    cfg       -- name of a cfg file in spec/.
    extra_modules -- {filename: text} additional files written to the scratch dir
                     (generated MC_*.tla with literal constants, trace data).
    simulate  -- None or number of behaviours for -simulate
    deadlock  -- None: leave TLC default (on) ; False: -deadlock flag (disable)
    Returns TLCResult.  Raises TLCError on machinery failure.
    """
    own = workdir is None
    wd = workdir or make_workdir()
    res = TLCResult()
    try:
        for name, text in (extra_modules or {}).items():
            with open(os.path.join(wd, name), 'w') as f:
                f.write(text)
        if cfg_text is not None:
            cfgname = 'MC_%s_%d.cfg' % (module, os.getpid())
            with open(os.path.join(wd, cfgname), 'w') as f:
                f.write(cfg_text)
        else:
            cfgname = cfg
        meta = tempfile.mkdtemp(prefix='meta-', dir=wd)
        cmd = ['java', '-XX:+UseParallelGC', '-Xmx' + heap]
        if stack:
            cmd.append('-Xss' + stack)
        if dfs:
            cmd.append('-Dtlc2.tool.queue.IStateQueue=StateDeque')
        cmd += ['-cp', JAR + ':' + DEPS, 'tlc2.TLC', '-metadir', meta, '-noGenerateSpecTE',
                '-config', cfgname]
        if workers is None:
            workers = 'auto'
        cmd += ['-workers', str(workers)]
        if simulate is not None:
            cmd += ['-simulate', 'num=%d' % simulate]
        if depth is not None:
            cmd += ['-depth', str(depth)]
        if seed is not None:
            cmd += ['-seed', str(seed)]
        if deadlock is False:
            cmd.append('-deadlock')
        if coverage is None:
            coverage = simulate is None      # per-action counts for every exhaustive run (vacuity control)
        if coverage:
            cmd += ['-coverage', '1']
        cmd.append(module + '.tla')
        e = dict(os.environ)
        e.pop('JAVA_TOOL_OPTIONS', None)
        if env:
            e.update(env)
        t0 = time.time()
        try:
            p = subprocess.run(cmd, cwd=wd, env=e, stdout=subprocess.PIPE, stderr=subprocess.STDOUT,
                               timeout=timeout)
        except subprocess.TimeoutExpired as ex:
            raise TLCError('TLC timed out after %ss on %s' % (timeout, module))
        res.wall = time.time() - t0
        res.rc = p.returncode
        out = p.stdout.decode('utf-8', 'replace')
        res.out = out
        _parse(out, res, want_beh)
        # Machinery failure classes: parse errors, config errors, evaluation errors
        if res.rc not in (0, 10, 11, 12, 13):
            raise TLCError('TLC failed (rc=%s) on %s:\n%s' % (res.rc, module, _tail(out)))
        if 'StackOverflowError' in out:
            raise TLCError('TLC evaluator stack overflow on %s (use stack=...)' % module)
        if res.rc == 10:
            raise TLCError('TLC assumption failure on %s:\n%s' % (module, _tail(out)))
        return res
    finally:
        if own and not keep:
            shutil.rmtree(wd, ignore_errors=True)


def _tail(out, n=40):
    lines = [l for l in out.splitlines() if not l.startswith('<<"BEH"')]
    errs = []
    for i, l in enumerate(lines):
        if l.startswith('Error:') or 'Exception' in l or l.startswith('***'):
            errs.extend(lines[i:i + 6])
    return '\n'.join(errs[:60] + ['...'] + lines[-n:])


_STATS = re.compile(r'^(\d+) states generated, (\d+) distinct states found')
_VIOL_INV = re.compile(r'^Error: Invariant (\S+) is violated')
_VIOL_PROP = re.compile(r'^Error: (?:Action|Temporal) propert(?:y|ies) (?:(\S+) )?(?:is|were) violated')
_DEPTH = re.compile(r'^The depth of the complete state graph search is (\d+)')
_COV = re.compile(r'^<(\w+) line \d+, col \d+ to line \d+, col \d+ of module (\w+)>: (\d+):(\d+)')


def _parse(out, res, want_beh=True):
    intrace = False
    tr = []
    lines = out.splitlines()
    # TLC breaks a long tuple over several lines (<< "TAG",\n   "payload" >>): join those back into the one-line form
    joined = []
    i = 0
    while i < len(lines):
        ln = lines[i]
        if ln.startswith('<< "') and not ln.rstrip().endswith('>>'):
            j = i
            buf = ln.strip()
            while not buf.endswith('>>') and j + 1 < len(lines):
                j += 1
                buf += ' ' + lines[j].strip()
            m2 = re.match(r'^<< "([A-Z]+)", "(.*)" >>$', buf)
            if m2:
                joined.append('<<"%s", "%s">>' % (m2.group(1), m2.group(2)))
                i = j + 1
                continue
        joined.append(ln)
        i += 1
    for line in joined:
        if line.startswith('<<"'):
            m = _BEH_RE.match(line)
            if m:
                tag = m.group(1)
                if tag == 'BEH':
                    if want_beh:
                        res.beh.append(json.loads(_unescape_tla_string(m.group(2))))
                else:
                    res.prints.append((tag, json.loads(_unescape_tla_string(m.group(2)))))
                continue
        m = _STATS.match(line)
        if m:
            res.generated = int(m.group(1))
            res.distinct = int(m.group(2))
            continue
        m = _VIOL_INV.match(line)
        if m:
            res.violated.append(m.group(1))
            intrace = True
            continue
        if line.startswith('Error: Action property') or line.startswith('Error: Temporal propert'):
            m2 = re.search(r'property (\S+)', line)
            res.violated.append(m2.group(1) if m2 else 'property')
            intrace = True
            continue
        if line.startswith('Error: Deadlock reached'):
            res.deadlock = True
            intrace = True
            continue
        m = _DEPTH.match(line)
        if m:
            res.depth = int(m.group(1))
            continue
        m = _COV.match(line)
        if m:
            res.coverage[m.group(1)] = (int(m.group(3)), int(m.group(4)))
            continue
        if intrace:
            tr.append(line)
    res.trace_text = '\n'.join(tr[:400])


def sany(path):
    p = subprocess.run(['java', '-cp', JAR + ':' + DEPS, 'tla2sany.SANY', os.path.basename(path)],
                       cwd=os.path.dirname(path), stdout=subprocess.PIPE, stderr=subprocess.STDOUT)
    out = p.stdout.decode()
    bad = p.returncode != 0 or 'Could not parse' in out or 'Semantic errors' in out \
        or '*** Errors' in out or 'Fatal errors' in out or 'Parsing or semantic analysis failed' in out
    return (not bad), out

"""Running the real plasTeX pipeline (Compile.run: parse with .paux restore loop, render, persist)."""
import contextlib
import io
import os


def make_config(renderer='HTML5', overrides=None):
    from plasTeX.Config import defaultConfig
    import plasTeX.client as C
    cfg = defaultConfig()
    C.collect_renderer_config(cfg)
    cfg['general']['renderer'] = renderer
    cfg['images']['imager'] = 'none'
    cfg['images']['vector-imager'] = 'none'
    cfg['general']['load-tex-packages'] = False
    for (sec, key), val in (overrides or {}).items():
        cfg[sec][key] = val
    return cfg


def compile_file(texname, cwd, renderer='HTML5', overrides=None):
    """Compile.run(texname) with cwd as working directory; returns the TeX object of the run.
    Output goes to cwd/<jobname>/ (files.directory default) unless overridden."""
    import plasTeX.Compile as Compile
    old = os.getcwd()
    os.chdir(cwd)
    try:
        cfg = make_config(renderer, overrides)
        holder = {}
        orig_parse = Compile.parse

        def parse(filename, config):
            holder['tex'] = orig_parse(filename, config)
            return holder['tex']
        Compile.parse = parse
        try:
            with contextlib.redirect_stdout(io.StringIO()):
                Compile.run(texname, cfg)
        finally:
            Compile.parse = orig_parse
        return holder.get('tex')
    finally:
        os.chdir(old)

"""C04 -- grouping restores every local change and leaves the context stack balanced.

spec -> code : TLC explores Context.tla (all API operation sequences up to a bound); one behaviour per
               distinct state is replayed on a real plasTeX.Context with real macro objects, comparing after
               every call: depth, the object of every frame, name lookup as the tokenizer+parser perform
               it, category codes and WHICH frames share a catcode table object.
code -> spec : generated documents (groups, \\begingroup, environments, math, tabular cells, commands with
               arguments, each containing \\def/\\gdef/\\let/\\catcode/\\makeatletter on marker names) are parsed
               by the real TeX engine with the Context hooks on; the recorded event traces are validated by TLC
               against ContextTrace.tla (every invariant at every step; depth 1 at end of balanced input).  The
               rendered marker text is compared with the scoping rule computed by the generator.
"""
import json
import os
import random
import re
import shutil

from .. import tlc
from ..core import MachineryError, pmap

NAMES = ['vma', 'vmb']
CHARS = ['@', '~']
DEFAULT_CAT = {'@': 12, '~': 13}
VERB_CAT = {'@': 12, '~': 12}
CODES = [11, 12, 13, 14]
VALS = [1, 2]

OBJS = [
    dict(id=1, ty='enva', mode='begin', par=0, name='enva', doc=False, locals={}),
    dict(id=2, ty='enva', mode='end', par=0, name='enva', doc=False, locals={}),
    dict(id=3, ty='cmdc', mode='none', par=1, name='cmdc', doc=False, locals={'vma': 9}),
    dict(id=4, ty='foo', mode='none', par=0, name='foo', doc=False, locals={}),
    dict(id=5, ty='endfoo', mode='none', par=0, name='endfoo', doc=False, locals={}),
    dict(id=6, ty='document', mode='begin', par=0, name='document', doc=True, locals={}),
]


def obj_tla(o):
    loc = '<<>>' if not o['locals'] else '(' + ' @@ '.join('"%s" :> %d' % kv for kv in o['locals'].items()) + ')'
    return ('[id |-> %d, ty |-> "%s", mode |-> "%s", par |-> %d, name |-> "%s", doc |-> %s, locals |-> %s]'
            % (o['id'], o['ty'], o['mode'], o['par'], o['name'], 'TRUE' if o['doc'] else 'FALSE', loc))


def let_scoped():
    return not os.environ.get('C04_ASBUILT')


def mc_module(name, base, maxops, keephist, objs_expr=None, vals='{1, 2}', codes=None):
    return '''---- MODULE %s ----
EXTENDS %s
MCNames == %s
MCVals == %s
MCChars == %s
MCCodes == %s
MCObjs == %s
MCDefaultCat == %s
MCVerbCat == %s
MCMaxOps == %d
MCKeepHist == %s
MCLetScoped == %s
====
''' % (name, base, tlc.to_tla(set(NAMES)), vals, tlc.to_tla(set(CHARS)),
       tlc.to_tla(set(codes or CODES)),
       objs_expr or ('{' + ',\n  '.join(obj_tla(o) for o in OBJS) + '}'),
       '("@" :> 12 @@ "~" :> 13)', '("@" :> 12 @@ "~" :> 12)', maxops, 'TRUE' if keephist else 'FALSE',
       'TRUE' if let_scoped() else 'FALSE')


CFG_CONST = '''CONSTANTS
  Names <- MCNames
  Vals <- MCVals
  Chars <- MCChars
  Codes <- MCCodes
  Objs <- MCObjs
  DefaultCat <- MCDefaultCat
  VerbCat <- MCVerbCat
  MaxOps <- MCMaxOps
  KeepHist <- MCKeepHist
  LetScoped <- MCLetScoped
'''
INVS = '''INVARIANT LookupInnermost
INVARIANT CurIsTop
INVARIANT ParallelStacks
PROPERTY NoWriteToSharedTable
PROPERTY RestoreOnClose
PROPERTY GlobalSurvives
'''
CFG_MC = CFG_CONST + 'INIT Init\nNEXT Next\nVIEW view\nCHECK_DEADLOCK FALSE\n' + INVS + 'INVARIANT EmitState\n'
CFG_TRACE = (CFG_CONST + 'INIT TraceInit\nNEXT TraceNext\nCONSTRAINT Progress\nPOSTCONDITION TraceAccepted\n'
             'CHECK_DEADLOCK FALSE\nINVARIANT BalancedAtEnd\n' + INVS)


# ---------------------------------------------------------------------------
# spec -> code
class RealCtx(object):
    def __init__(self):
        import plasTeX
        from plasTeX.Context import Context
        self.ctx = Context()
        self.P = plasTeX
        self.valclass = {}
        self.objs = {}
        for o in OBJS:
            self.objs[o['id']] = self.make_obj(o)
        for o in OBJS:
            if o['par']:
                self.objs[o['id']].parentNode = self.objs[o['par']]

    def vclass(self, n, v):
        key = (n, v)
        if key not in self.valclass:
            self.valclass[key] = type(n, (self.P.Command,), {'macroName': n, 'vid': v})
        return self.valclass[key]

    def make_obj(self, o):
        P = self.P
        attrs = {'macroName': o['name']}
        for n, v in o['locals'].items():
            attrs[n] = self.vclass(n, v)
        base = P.Environment if o['mode'] in ('begin', 'end') else P.Command
        key = ('cls', o['ty'])
        if key not in self.valclass:
            if o['doc']:
                attrs['level'] = P.Node.DOCUMENT_LEVEL
            self.valclass[key] = type(o['ty'], (base,), attrs)
        inst = self.valclass[key]()
        if o['mode'] == 'end':
            inst.macroMode = inst.MODE_END
        return inst

    def apply(self, e):
        from plasTeX.Tokenizer import EscapeSequence, Other
        c = self.ctx
        op = e['op']
        if op == 'push':
            c.push()
        elif op == 'pushobj':
            c.push(self.objs[e['o']])
        elif op == 'pop':
            c.pop()
        elif op == 'popobj':
            c.pop(self.objs[e['o']])
        elif op == 'deflocal':
            c.addLocal(e['n'], self.vclass(e['n'], e['v']))
        elif op == 'defglobal':
            c.addGlobal(e['n'], self.vclass(e['n'], e['v']))
        elif op == 'letmacro':
            c.let(EscapeSequence(e['n']), EscapeSequence(e['c']))
        elif op == 'letchar':
            c.let(EscapeSequence(e['n']), Other(e['c']))
        elif op == 'catcode':
            c.catcode(e['c'], e['k'])
        elif op == 'verbatim':
            c.setVerbatimCatcodes()
        else:
            raise MachineryError('unknown op %r' % op)

    def project(self):
        return project_ctx(self.ctx, lambda o: next((k for k, v in self.objs.items() if v is o), -1),
                           lambda cls: getattr(cls, 'vid', -1))


def project_ctx(c, objid, valid):
    from plasTeX.Tokenizer import EscapeSequence
    look = {}
    for n in NAMES:
        t = c.get_let(EscapeSequence(n))
        if not isinstance(t, EscapeSequence):
            look[n] = {'k': 'char', 'v': 0, 'c': str(t)}
        else:
            cls = c.top.get(n)
            look[n] = {'k': 'undef', 'v': 0, 'c': ''} if cls is None else {'k': 'def', 'v': valid(cls), 'c': ''}
    ids = [id(f.categories) for f in c.contexts]
    share = [ids.index(x) + 1 for x in ids]
    return {'depth': len(c.contexts), 'look': look, 'cat': dict((ch, int(c.whichCode(ch))) for ch in CHARS),
            'share': share, 'objs': [0 if f.obj is None else objid(f.obj) for f in c.contexts],
            'alias_ok': c.categories is c.contexts[-1].categories and c.depth == len(c.contexts)}


def fmt(e):
    op = e['op']
    if op in ('pushobj', 'popobj'):
        return '%s(%s)' % (op, next(o['name'] + ('/end' if o['mode'] == 'end' else '') for o in OBJS if o['id'] == e['o']))
    if op in ('deflocal', 'defglobal'):
        return '%s(%s=%s)' % (op, e['n'], e['v'])
    if op in ('letmacro', 'letchar'):
        return '%s(%s=%s)' % (op, e['n'], e['c'])
    if op == 'catcode':
        return 'catcode(%s=%s)' % (e['c'], e['k'])
    return op


def replay_one(rec):
    r = RealCtx()
    for step, e in enumerate(rec['h']):
        try:
            r.apply(e)
        except MachineryError:
            raise
        except Exception as ex:
            return False, 'raise', '%s raised %s: %s' % (fmt(e), type(ex).__name__, ex), step
        got = r.project()
        if not got.pop('alias_ok'):
            return False, 'alias', 'after %s Context.categories/depth is not the top frame' % fmt(e), step
        for key in ('depth', 'objs', 'look', 'cat', 'share'):
            if got[key] != e[key]:
                return False, key, 'after %s: %s = %s, specification %s' % ([fmt(x) for x in rec['h'][:step + 1]], key, got[key], e[key]), step
    return True, '', '', 0


# ---------------------------------------------------------------------------
# code -> spec : documents
class DocGen(object):
    """Random balanced nestings of scoping constructs with definitions of marker macros; computes the
    expected printed text with the plain scoping rule: a stack of frames, \\def and \\let write the top
    frame, \\gdef the bottom one, a use prints the innermost binding, closing a scope drops its frame."""

    def __init__(self, rnd):
        self.rnd = rnd
        self.k = 0
        self.frames = [{}, {}]      # global frame, frame of the document environment

    def marker(self):
        self.k += 1
        return 'W%dx' % self.k

    def lookup(self, n):
        for f in reversed(self.frames):
            if n in f:
                return f[n]
        return None

    def gen(self, depth, inmath=False, inarg=False):
        rnd = self.rnd
        src, exp = [], []
        for _ in range(rnd.randint(1, 4)):
            kind = rnd.choice(['def', 'gdef', 'use', 'use', 'group', 'begingroup', 'env', 'math', 'cmdarg', 'tabular',
                               'letm', 'atletter', 'cat']) if depth < 4 else rnd.choice(['def', 'use', 'gdef'])
            if inmath and kind in ('math', 'env', 'tabular', 'atletter'):
                kind = 'group'      # no math inside math, no block environments inside math
            if inarg and kind in ('letc', 'cat', 'atletter'):
                # the tokens of a macro argument are formed when the argument is read, so category
                # changes cannot act on them (as in TeX); character aliases are resolved by plasTeX's
                # tokenizer and are probed separately (known finding F26)
                kind = 'use'
            if kind == 'def':
                n = rnd.choice(NAMES)
                w = self.marker()
                src.append('\\def\\%s{%s}' % (n, w))
                self.frames[-1][n] = w
            elif kind == 'gdef':
                n = rnd.choice(NAMES)
                # NF-MACRO (e): no \gdef of a name that has a live local binding in an open group
                if any(n in f for f in self.frames[1:]):
                    continue
                w = self.marker()
                src.append('\\gdef\\%s{%s}' % (n, w))
                self.frames[0][n] = w
            elif kind == 'letm':
                a, b = NAMES if rnd.random() < .5 else NAMES[::-1]
                if self.lookup(b) is None:
                    continue
                src.append('\\let\\%s=\\%s' % (a, b))
                self.frames[-1][a] = self.lookup(b)
            elif kind == 'use':
                n = rnd.choice(NAMES)
                if self.lookup(n) is not None:
                    src.append('\\%s{} ' % n)
                    exp.append(self.lookup(n))
            elif kind == 'letc':
                n = rnd.choice(NAMES)
                src.append('\\let\\%s=@ ' % n)
                self.frames[-1][n] = '@'
            elif kind == 'cat':
                # category code change local to its group: inside, ~ is an ordinary character
                src.append('{\\catcode`\\~=12\\relax ~}~')
                exp.append('~')
            elif kind == 'atletter':
                src.append('\\makeatletter\\def\\v@x{Wat}\\v@x{} ')
                exp.append('Wat')
            else:
                self.frames.append({})
                isrc, iexp = self.gen(depth + 1, inmath or kind == 'math', inarg or kind == 'cmdarg')
                self.frames.pop()
                tail = ''
                if not inarg and kind != 'cmdarg' and rnd.random() < 0.4:
                    # a category code change with no definition beside it, in force until THIS scope closes:
                    # the ~ right after the scope (next cell, after the group/environment/math) is active again
                    isrc += '\\catcode`\\~=12\\relax ~'
                    iexp = iexp + ['~']
                    tail = '~'

                if kind == 'group':
                    src.append('{' + isrc + '}' + tail)
                elif kind == 'begingroup':
                    src.append('\\begingroup ' + isrc + '\\endgroup ' + tail)
                elif kind == 'env':
                    e = rnd.choice(['center', 'quote', 'itemize', 'venv', 'vnest'])      # the last two are user-defined (\newenvironment)
                    src.append('\\begin{%s}%s%s\\end{%s}%s' % (e, '\\item ' if e == 'itemize' else '', isrc, e, tail))
                elif kind == 'math':
                    src.append('$' + isrc + '$ ' + tail)
                elif kind == 'cmdarg':
                    src.append('\\textbf{' + isrc + '}')
                elif kind == 'tabular':
                    src.append('\\begin{tabular}{ll}' + isrc + '& ' + tail + 'x\\\\ y & z\\end{tabular}')
                exp.extend(iexp)
        return ''.join(src), exp


def gen_document(rnd):
    g = DocGen(rnd)
    body, exp = g.gen(0)
    src = ('\\documentclass{article}\\newenvironment{venv}{}{}\\newenvironment{vnest}{\\begin{quote}}{\\end{quote}}'
           '\\begin{document}' + body + ' End\\end{document}')
    return src, exp


class Recorder(object):
    """Sink for the Context hooks: projects every event on the marker names / characters."""

    def __init__(self):
        self.ev = []
        self.objid = {}
        self.valid = {}
        self.err = None

    def oid(self, o):
        if o is None:
            return 0
        k = id(o)
        if k not in self.objid:
            self.objid[k] = (len(self.objid) + 1, o)      # keep a reference: ids stay unique
        return self.objid[k][0]

    def vid(self, cls):
        k = id(cls)
        if k not in self.valid:
            self.valid[k] = (len(self.valid) + 1, cls)
        return self.valid[k][0]

    def orec(self, o):
        from plasTeX import Node
        loc = {}
        try:
            L = o.locals()
        except Exception:
            L = {}
        for n in NAMES:
            if n in L:
                loc[n] = self.vid(L[n])
        return {'id': self.oid(o), 'ty': type(o).__name__, 'mode': 'end' if getattr(o, 'macroMode', None) == getattr(o, 'MODE_END', -1) else 'begin',
                'par': self.oid(getattr(o, 'parentNode', None)), 'name': str(o.nodeName), 'doc': o.level == Node.DOCUMENT_LEVEL,
                'locals': loc}

    def __call__(self, kw):
        ev = kw['ev']
        if not ev.startswith('ctx.'):
            return
        c = kw['ctx']
        if not hasattr(c, 'top'):
            return
        e = None
        from plasTeX.Tokenizer import Token
        if ev == 'ctx.push':
            if len(c.contexts) == 1:
                return            # creation of the global frame
            o = kw['obj']
            e = {'op': 'push'} if o is None else {'op': 'pushobj', 'orec': self.orec(o)}
        elif ev == 'ctx.pop':
            o = kw['obj']
            e = {'op': 'pop'} if o is None else {'op': 'popobj', 'orec': self.orec(o)}
        elif ev in ('ctx.addLocal', 'ctx.addGlobal'):
            from plasTeX import macroName
            n = str(macroName(kw['value']))
            if n not in NAMES:
                return
            e = {'op': 'deflocal' if ev == 'ctx.addLocal' else 'defglobal', 'n': n, 'v': self.vid(kw['value']) if isinstance(kw['value'], type) else self.vid(type(kw['value']))}
        elif ev == 'ctx.let':
            d = kw['dest'].nodeName
            if d not in NAMES:
                return
            s = kw['source']
            if s.catcode == Token.CC_ESCAPE:
                if s.nodeName not in NAMES:
                    self.err = 'let to a macro outside the marker names'
                    return
                e = {'op': 'letmacro', 'n': d, 'c': str(s.nodeName)}
            else:
                if str(s) not in CHARS:
                    self.err = 'let to a character outside the marker characters'
                    return
                e = {'op': 'letchar', 'n': d, 'c': str(s)}
        elif ev == 'ctx.catcode':
            if kw['char'] not in CHARS:
                return
            e = {'op': 'catcode', 'c': str(kw['char']), 'k': int(kw['code'])}
        elif ev == 'ctx.verbatim':
            e = {'op': 'verbatim'}
        if e is None:
            return
        for k, dv in (('o', 0), ('n', ''), ('v', 0), ('c', ''), ('k', 0)):
            e.setdefault(k, dv)
        p = project_ctx(c, self.oid, lambda cls: self.vid(cls))
        p.pop('alias_ok')
        e.update(p)
        self.ev.append(e)


def run_doc(args):
    src, exp = args
    import plasTeX._verif as V
    from plasTeX.TeX import TeX
    from plasTeX import TeXDocument
    rec = Recorder()
    out = {'src': src, 'exp': exp}
    V.sink = rec
    try:
        doc = TeXDocument()
        tex = TeX(doc)
        tex.input(src)
        tex.parse()
        V.sink = None
        out['text'] = str(doc.textContent)
        out['enddepth'] = len(doc.context.contexts)
    except Exception as ex:
        V.sink = None
        out['exc'] = '%s: %s' % (type(ex).__name__, ex)
    out['ev'] = rec.ev
    out['err'] = rec.err
    return json.loads(json.dumps(out, default=str))


# ---------------------------------------------------------------------------
def run(chk):
    tier, seed = chk.tier, chk.seed
    chk.rule = ('behaviours: one operation sequence per distinct reachable state of Context.tla (BFS, bounded length); '
                'non-trivial = at least one push and one pop and one definition/catcode change; documents: random balanced '
                'nestings (depth <= 4) of groups/environments/math/cells/arguments with marker definitions; distinct by content hash')
    chk.assumptions = ['stub macro objects are real plasTeX.Command/Environment subclasses created by the harness',
                       'document traces are projected on the marker names vma,vmb and characters @,~ (other names do not '
                       'affect the projection)']
    # 1. design + behaviours
    maxops = 4
    cfg_mc = CFG_MC if let_scoped() else CFG_MC.replace('INVARIANT LookupInnermost\n', '')
    if tier != 'quick':
        # one operation more: invariants only (printing one behaviour per state at this bound needs > 30 GB in the harness)
        mod5 = mc_module('MC_Context', 'Context', 5, True)
        res5 = tlc.run('MC_Context', cfg_text=cfg_mc.replace('INVARIANT EmitState\n', ''), extra_modules={'MC_Context.tla': mod5}, timeout=3400,
                       heap='12g', want_beh=False)
        chk.add_tlc(res5, 'mc(MaxOps=5)')
        if not res5.ok:
            chk.violation('design:' + ','.join(res5.violated or ['error']),
                          'TLC found a counterexample in the Context design: %s\n%s' % (res5.violated, res5.trace_text[:3000]))
    mod = mc_module('MC_Context', 'Context', maxops, True)
    res = tlc.run('MC_Context', cfg_text=cfg_mc, extra_modules={'MC_Context.tla': mod}, coverage=True, timeout=3400,
                  heap='12g')
    chk.add_tlc(res, 'mc+states(MaxOps=%d)' % maxops)
    if not res.ok:
        chk.violation('design:' + ','.join(res.violated or ['error']),
                      'TLC found a counterexample in the Context design: %s\n%s' % (res.violated, res.trace_text[:3000]))
    must = ['PushAnon', 'PushObj', 'PopAnon', 'PopObj', 'DefLocal', 'DefGlobal', 'LetMacro', 'LetChar', 'SetCat', 'SetVerbatim']
    missing = [a for a in must if res.coverage.get(a, (0, 0))[1] == 0]
    if missing and res.ok:
        raise MachineryError('C04: actions never taken in the model: %s' % missing)
    if not res.beh:
        raise MachineryError('C04: no behaviours emitted')
    results = pmap(replay_one, res.beh, chunksize=200)
    for rec, (ok, kind, msg, step) in zip(res.beh, results):
        ops = [e['op'] for e in rec['h']]
        nt = any(o.startswith('push') for o in ops) and any(o.startswith('pop') for o in ops) and \
            any(o in ('deflocal', 'defglobal', 'letmacro', 'letchar', 'catcode', 'verbatim') for o in ops)
        chk.case([fmt(e) for e in rec['h']], nt, [fmt(e) for e in rec['h']] if nt else None)
        chk.traces += 1
        if not ok:
            lastop = rec['h'][step]['op']
            hasletchar = any(e['op'] == 'letchar' for e in rec['h'][:step + 1])
            chk.violation('replay:%s:%s%s' % (kind, lastop, ':after-letchar' if hasletchar and kind == 'look' else ''), msg,
                          {'ops': [fmt(e) for e in rec['h']], 'behaviour': rec})
    chk.exhaustive = True
    chk.extra['bounds'] = {'MaxOps': maxops, 'names': NAMES, 'values': VALS, 'chars': CHARS, 'codes': CODES, 'objects': [o['name'] + '/' + o['mode'] for o in OBJS]}

    # 2. documents
    rnd = random.Random(seed)
    ndoc = 150 if tier == 'quick' else 1500
    docs = [gen_document(rnd) for _ in range(ndoc)]
    outs = pmap(run_doc, docs, chunksize=10)
    lines = []
    for o in outs:
        if o.get('exc'):
            chk.violation('doc:raise:' + o['exc'].split(':')[0], 'parsing %r raised %s' % (o['src'], o['exc']), o['src'])
            continue
        if o.get('err'):
            raise MachineryError('C04 recorder: %s in %r' % (o['err'], o['src']))
        # marker words may be glued to neighbours by the parser's handling of blanks: compare as a stream
        words = re.findall(r'W(?:\d+x|at)|@|~', o['text'])
        chk.case(o['src'], len(o['ev']) > 10, {'document': o['src'][:300], 'events': len(o['ev'])} if len(o['ev']) > 30 else None)
        if words != o['exp']:
            chk.violation('doc:text', 'document %r printed markers %s, the scoping rule gives %s' % (o['src'], words, o['exp']), o['src'])
        if o['enddepth'] != 1:
            chk.violation('doc:unbalanced', 'document %r ends with context depth %d' % (o['src'], o['enddepth']), o['src'])
        lines.append({'ev': o['ev'], 'balanced': True, 'enddepth': 1, 'src': o['src']})
    # probes: aliases to characters (\\let\\x=c).  plasTeX resolves them in the TOKENIZER, so an alias acts on
    # tokens, not on meanings: tokens formed before the \\let keep the old meaning, and once the alias is
    # visible the name can no longer be redefined (\\def\\x is tokenized as \\def c).  Known finding F26.
    probes = [
        ('{\\let\\vma=@ \\vma{}}', ['@'], 'ok'),
        ('\\gdef\\vma{W1x}{\\let\\vma=@ \\vma{}}\\vma{}', ['@', 'W1x'], 'ok'),
        ('\\gdef\\vma{W1x}$\\let\\vma=@ \\vma{}$\\vma{}', ['@', 'W1x'], 'lookahead'),
        ('\\gdef\\vma{W1x}$\\let\\vma=@ \\vma{}$ x\\vma{}', ['@', 'W1x'], 'ok'),
        ('\\gdef\\vma{W1x}\\textbf{\\let\\vma=@ \\vma{}}', ['@'], 'pretokenized'),
        ('\\let\\vma=@ \\def\\vma{W1x}\\vma{}', ['W1x'], 'redefine'),
        ('\\let\\vma=@ {\\def\\vma{W1x}\\vma{}}\\vma{}', ['W1x', '@'], 'redefine'),
    ]
    for src, want, cls in probes:
        o = run_doc(('\\documentclass{article}\\begin{document}' + src + ' End\\end{document}', want))
        got = re.findall(r'W(?:\d+x|at)|@|~', o.get('text', ''))
        chk.case(src, True)
        if got != want or o.get('exc'):
            chk.violation('doc:letchar-lexical:' + cls, 'document body %r printed %s (%s), the scoping rule gives %s'
                          % (src, got, o.get('exc', 'no exception'), want), src)
    wd = tlc.make_workdir()
    try:
        tf = os.path.join(wd, 'trace.ndjson')
        with open(tf, 'w') as f:
            for ln in lines:
                f.write(json.dumps({'ev': ln['ev'], 'balanced': True, 'enddepth': 1}) + '\n')
        objs_expr = '{}'
        mod = mc_module('MC_ContextTrace', 'ContextTrace', 10000000, False, objs_expr=objs_expr, vals='Nat', codes=range(16))
        rt = tlc.run('MC_ContextTrace', cfg_text=CFG_TRACE if let_scoped() else CFG_TRACE.replace('INVARIANT LookupInnermost\n', ''), extra_modules={'MC_ContextTrace.tla': mod}, workdir=wd,
                     workers=1, env={'TRACE_FILE': tf}, timeout=3400, heap='8g')
    finally:
        shutil.rmtree(wd, ignore_errors=True)
    chk.add_tlc(rt, 'trace-validation(%d documents)' % len(lines))
    rej = [p for tag_, p in rt.prints if tag_ == 'REJ']
    if not rej:
        if not rt.violated:
            raise MachineryError('C04: trace validation printed no verdict:\n' + rt.out[-3000:])
        rej = [{}]      # TLC stopped at the invariant violation before the verdict was printed: reported below
    chk.traces += len(lines)
    if rt.violated:
        chk.violation('trace-invariant:' + ','.join(rt.violated),
                      'an invariant failed on a recorded execution: %s\n%s' % (rt.violated, rt.trace_text[:3000]))
    rejected = rej[-1] if isinstance(rej[-1], dict) else {}
    for tid_s, reached in rejected.items():
        ln = lines[int(tid_s) - 1]
        k = int(reached) - 1
        e = ln['ev'][k]
        chk.violation('trace:rejected:%s' % e['op'],
                      'recorded Context trace rejected by the specification at event %d (%s) of document %r; logged state %s'
                      % (k + 1, e['op'], ln['src'], dict((x, e[x]) for x in ('depth', 'objs', 'look', 'cat', 'share'))),
                      {'src': ln['src'], 'events': ln['ev'][:k + 1]})
    chk.extra['trace_events'] = sum(len(ln['ev']) for ln in lines)

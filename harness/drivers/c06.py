"""C06 -- the document tree stays a consistent tree under any sequence of DOM edits.

spec -> code : TLC explores Dom.tla (all operation sequences up to a bound over a small node pool)
               and prints one behaviour per distinct reachable state (quick: additionally every path
               of length <= 2); each is replayed on real plasTeX.DOM objects, comparing childNodes
               identity lists, parentNode links and text after EVERY operation and all derived views
               (siblings, first/last, textContent, getElementsByTagName, compareDocumentPosition, clones)
               at the end.
code -> spec : seeded random edit sequences (length <= 40, pool of 9 nodes) on the real DOM are logged
               and validated by TLC against DomTrace.tla with every invariant evaluated at each step.
"""
import json
import os
import random
import shutil

from .. import tlc
from ..core import MachineryError, pmap

_POOL = None


def _replay_one(rec):
    return replay(rec, _POOL)

NONE = 'None'


def pool(big=False):
    elems = ['R', 'E1', 'E2', 'E3'] if not big else ['R', 'E1', 'E2', 'E3', 'E4']
    texts = ['T1', 'T2'] if not big else ['T1', 'T2', 'T3']
    frags = ['F1'] if not big else ['F1', 'F2']
    tag = {'R': 'root', 'E1': 'p', 'E2': 'p', 'E3': 'q', 'E4': 'q'}
    txt0 = {'T1': ['a'], 'T2': ['b'], 'T3': ['c', 'd']}
    return elems, texts, frags, dict((e, tag[e]) for e in elems), dict((t, txt0[t]) for t in texts)


ALL_OPS = ['append', 'insert', 'insertBefore', 'insertAfter', 'replaceChild', 'removeChild', 'pop', 'setitem',
           'extend', 'normalize', 'clone', 'notfound']


def mc_module(name, base, elems, texts, frags, tag, txt0, maxops, ops):
    return '''---- MODULE %s ----
EXTENDS %s
MCElems == %s
MCTexts == %s
MCFrags == %s
MCTag == %s
MCTxt0 == %s
MCMaxOps == %d
MCOps == %s
====
''' % (name, base, tlc.to_tla(set(elems)), tlc.to_tla(set(texts)), tlc.to_tla(set(frags)), tlc.to_tla(tag),
       tlc.to_tla(txt0), maxops, tlc.to_tla(set(ops)))


CFG_CONST = '''CONSTANTS
  Elems <- MCElems
  Texts <- MCTexts
  Frags <- MCFrags
  Tag <- MCTag
  Txt0 <- MCTxt0
  MaxOps <- MCMaxOps
  Ops <- MCOps
'''
INVS = '''INVARIANT ParentOfChild
INVARIANT AtMostOnce
INVARIANT ListModel
INVARIANT TextsAreLeaves
INVARIANT NormalizeProps
INVARIANT NormalizeKeepsText
INVARIANT SiblingsConsistent
INVARIANT PositionConsistent
'''
CFG_MC = CFG_CONST + 'INIT Init\nNEXT Next\nVIEW view\nCHECK_DEADLOCK FALSE\n' + INVS
CFG_EMIT_STATES = CFG_CONST + 'INIT Init\nNEXT Next\nVIEW view\nCHECK_DEADLOCK FALSE\nINVARIANT EmitState\n'
CFG_EMIT_PATHS = CFG_CONST + 'INIT Init\nNEXT Next\nCHECK_DEADLOCK FALSE\nINVARIANT EmitState\n'
CFG_TRACE = CFG_CONST + 'INIT TraceInit\nNEXT TraceNext\nCONSTRAINT Progress\nPOSTCONDITION TraceAccepted\nCHECK_DEADLOCK FALSE\n' + INVS


# ---------------------------------------------------------------------------
class World(object):
    """Real DOM objects bound to the model's node names."""

    def __init__(self, elems, texts, frags, tag, txt0):
        from plasTeX.DOM import Document
        self.doc = Document()
        self.n = {}
        for e in elems:
            self.n[e] = self.doc.createElement(tag[e])
        for t in texts:
            self.n[t] = self.doc.createTextNode(''.join(txt0[t]))
        for f in frags:
            self.n[f] = self.doc.createDocumentFragment()
        self.doc.appendChild(self.n['R'])
        self.elems, self.texts, self.frags = elems, texts, frags
        self.used = set()

    def name(self, obj):
        if obj is None or obj is self.doc:
            return NONE
        for k, v in self.n.items():
            if v is obj:
                return k
        return '?unknown(%r)' % (obj,)

    def kids(self, k):
        node = self.n[k]
        if k in self.texts or k in self.used:
            return []
        return [self.name(c) for c in (node.childNodes if node.hasChildNodes() else [])]

    def project(self):
        return {'kids': dict((k, self.kids(k)) for k in self.n),
                'parent': dict((k, self.name(v.parentNode)) for k, v in self.n.items()),
                'txt': dict((t, list(str(self.n[t]))) for t in self.texts)}

    def rebind_texts(self, post_kids):
        """After normalize the code has created new text nodes; bind the model's representative
        names to them by walking model and real child lists in parallel."""
        for k, lst in post_kids.items():
            if k in self.texts:
                continue
            node = self.n[k]
            real = list(node.childNodes) if node.hasChildNodes() else []
            if len(real) != len(lst):
                continue
            for name, obj in zip(lst, real):
                if name in self.texts and getattr(obj, 'nodeType', None) == obj.TEXT_NODE and self.name(obj).startswith('?'):
                    self.n[name] = obj

    def apply(self, e, post_kids=None):
        """Apply one logged operation; returns None or an error string."""
        from plasTeX.DOM import NotFoundErr
        n = self.n
        op = e['op']
        if e['x'] in self.frags and not op.endswith('NotFound'):
            self.used.add(e['x'])
        r = n[e['r']]
        x = n.get(e['x'])
        y = n.get(e['y'])
        i = e['i']
        if op == 'append':
            r.append(x)
        elif op == 'insert':
            r.insert(i, x)
        elif op == 'insertBefore':
            r.insertBefore(x, y)
        elif op == 'insertAfter':
            r.insertAfter(x, y)
        elif op == 'replaceChild':
            r.replaceChild(x, y)
        elif op == 'removeChild':
            r.removeChild(x)
        elif op == 'pop':
            r.pop(i)
        elif op == 'setitem':
            r[i] = x
        elif op == 'extend':
            r.extend([x, y])
        elif op == 'normalize':
            r.normalize()
            if post_kids is not None:
                self.rebind_texts(post_kids)
        elif op in ('cloneDeep', 'cloneShallow'):
            return self.check_clone(e['r'], op == 'cloneDeep')
        elif op == 'removeChildNotFound':
            try:
                r.removeChild(x)
            except NotFoundErr:
                return None
            return 'removeChild of a non-child did not raise NotFoundErr'
        elif op == 'insertBeforeNotFound':
            try:
                r.insertBefore(x, y)
            except NotFoundErr:
                return None
            return 'insertBefore with a non-child reference did not raise NotFoundErr'
        elif op == 'popEmpty':
            try:
                r.pop()
            except IndexError:
                return None
            return 'pop on an empty node did not raise IndexError'
        else:
            raise MachineryError('unknown op %r' % op)
        return None

    def check_clone(self, k, deep):
        src = self.n[k]
        c = src.cloneNode(deep)
        if c is src:
            return 'clone is the same object'
        if deep:
            def shape(o):
                if o.nodeType == o.TEXT_NODE:
                    return ('t', str(o))
                return ('e', o.nodeName, [shape(z) for z in (o.childNodes if o.hasChildNodes() else [])])
            if shape(c) != shape(src):
                return 'deep clone differs from its source: %r vs %r' % (shape(c), shape(src))
            mine = set(id(z) for z in [src] + list(src.allChildNodes))
            for z in [c] + list(c.allChildNodes):
                if id(z) in mine:
                    return 'deep clone shares a node with its source'
                if z.ownerDocument is not self.doc:
                    return 'clone node has a different ownerDocument'
            for z in c.allChildNodes:
                pass
            def parents_ok(o):
                for z in (o.childNodes if o.hasChildNodes() else []):
                    if z.parentNode is not o:
                        return False
                    if z.nodeType != z.TEXT_NODE and not parents_ok(z):
                        return False
                return True
            if not parents_ok(c):
                return 'deep clone has a child whose parentNode is not the clone node listing it'
            if not c.isEqualNode(src) and False:
                return 'deep clone not isEqualNode'
        else:
            if [id(z) for z in (c.childNodes if c.hasChildNodes() else [])] != \
               [id(z) for z in (src.childNodes if src.hasChildNodes() else [])]:
                return 'shallow clone does not list the same children'
        return None

    # derived views on the real tree -------------------------------------------------
    def views(self):
        from plasTeX.DOM import Node
        n = self.n
        v = {'prev': {}, 'next': {}, 'first': {}, 'last': {}, 'text': {}, 'bytag': {}, 'cmp': {}}
        for k, o in n.items():
            v['first'][k] = self.name(o.firstChild) if k not in self.texts else NONE
            v['last'][k] = self.name(o.lastChild) if k not in self.texts else NONE
        for e in self.elems:
            v['text'][e] = list(str(n[e].textContent))
            v['bytag'][e] = {'p': [self.name(z) for z in n[e].getElementsByTagName('p')],
                             'q': [self.name(z) for z in n[e].getElementsByTagName('q')]}
        return v


def listers(post, used, k):
    return [m for m, lst in post['kids'].items() if k in lst and not (m.startswith('F') and m in used)]


def compare_views(w, rec):
    """Compare the derived views of the real tree with the ones TLC computed from the model."""
    from plasTeX.DOM import Node
    out = []
    post, views, used = rec['post'], rec['views'], set(rec.get('used') or [])
    real = w.views()
    n = w.n
    for k in n:
        attached_somewhere = bool(listers(post, used, k))
        # sibling navigation is meaningful for nodes that are listed by their parentNode
        ls = listers(post, used, k)
        if ls and not ls[0].startswith('F'):
            p, nx = w.name(n[k].previousSibling), w.name(n[k].nextSibling)
            if p != views['prev'][k]:
                out.append('previousSibling(%s) = %s, model %s' % (k, p, views['prev'][k]))
            if nx != views['next'][k]:
                out.append('nextSibling(%s) = %s, model %s' % (k, nx, views['next'][k]))
        if k in used:
            continue            # carrier fragment: what it still lists is of no interest
        if real['first'][k] != views['first'][k]:
            out.append('firstChild(%s) = %s, model %s' % (k, real['first'][k], views['first'][k]))
        if real['last'][k] != views['last'][k]:
            out.append('lastChild(%s) = %s, model %s' % (k, real['last'][k], views['last'][k]))
    for e in w.elems:
        if real['text'][e] != views['text'][e]:
            out.append('textContent(%s) = %r, model %r' % (e, ''.join(real['text'][e]), ''.join(views['text'][e])))
        for tg in ('p', 'q'):
            if real['bytag'][e][tg] != views['bytag'][e][tg]:
                out.append('getElementsByTagName(%s,%s) = %s, model %s' % (e, tg, real['bytag'][e][tg], views['bytag'][e][tg]))
    order = views['order']
    idx = dict((k, i) for i, k in enumerate(order))
    desc = {}
    def d(k):
        if k not in desc:
            s = set()
            for c in post['kids'].get(k, []):
                s.add(c)
                s |= d(c)
            desc[k] = s
        return desc[k]
    for a in order:
        for b in order:
            if a == b:
                want = Node.DOCUMENT_POSITION_IMPLEMENTATION_SPECIFIC
            elif a in d(b):
                want = Node.DOCUMENT_POSITION_CONTAINS
            elif b in d(a):
                want = Node.DOCUMENT_POSITION_CONTAINED_BY
            elif idx[b] < idx[a]:
                want = Node.DOCUMENT_POSITION_PRECEDING
            else:
                want = Node.DOCUMENT_POSITION_FOLLOWING
            got = n[a].compareDocumentPosition(n[b])
            if got != want:
                out.append('compareDocumentPosition(%s,%s) = %s, model %s' % (a, b, got, want))
    for k in order:
        if n[k].ownerDocument is not w.doc:
            out.append('ownerDocument(%s) is not the creating document' % k)
    return out


def replay(rec, pool_):
    """Replay one TLC behaviour; returns (ok, message, step)."""
    w = World(*pool_)
    for step, e in enumerate(rec['h']):
        try:
            err = w.apply(e, e['post']['kids'])
        except MachineryError:
            raise
        except Exception as ex:
            return False, 'operation %s raised %s: %s' % (fmt(e), type(ex).__name__, ex), step
        if err:
            return False, '%s: %s' % (fmt(e), err), step
        got = w.project()
        if got != e['post']:
            diff = []
            for key in ('kids', 'parent', 'txt'):
                for k in got[key]:
                    if got[key][k] != e['post'][key].get(k):
                        diff.append('%s[%s] = %s, specification %s' % (key, k, got[key][k], e['post'][key].get(k)))
            return False, 'after %s: %s' % (fmt(e), '; '.join(diff)), step
    bad = compare_views(w, rec)
    if bad:
        return False, 'derived views after %s: %s' % ([fmt(e) for e in rec['h']], '; '.join(bad[:4])), len(rec['h'])
    return True, '', 0


def fmt(e):
    a = [e['r']]
    if e['op'] in ('insert', 'pop', 'setitem'):
        a.append(str(e['i']))
    if e['x'] != NONE:
        a.append(e['x'])
    if e['y'] != NONE:
        a.append(e['y'])
    return '%s(%s)' % (e['op'], ','.join(a))


def signature(rec, step, msg):
    ops = rec['h']
    op = ops[min(step, len(ops) - 1)]['op'] if ops else 'init'
    kind = 'views' if msg.startswith('derived views') else ('raise' if ' raised ' in msg else 'state')
    argk = ''
    if ops and step < len(ops):
        x = ops[step]['x']
        argk = 'frag' if x.startswith('F') else ('text' if x.startswith('T') else 'elem' if x.startswith('E') else '')
    return 'replay:%s:%s:%s' % (kind, op, argk)


# ---------------------------------------------------------------------------
def random_trace(rnd, pool_, length):
    """Drive the real DOM with a random valid (NF-DOM) edit sequence; log ops and projections."""
    elems, texts, frags, tag, txt0 = pool_
    w = World(*pool_)
    used = set()
    ev = []

    def proj():
        return w.project()

    def kids(k):
        return w.kids(k)

    def desc(k):
        s = set()
        for c in kids(k):
            s.add(c)
            s |= desc(c)
        return s

    def detached(k):
        for m in w.n:
            if m in frags and m in used:
                continue
            if k in kids(m):
                return False
        return True

    def eligible(r, x):
        if x == r or x == 'R' or r in desc(x):
            return False
        if x in frags:
            return x not in used and detached(x)
        return detached(x)

    for _ in range(length):
        receivers = [e for e in elems] + [f for f in frags if f not in used]
        for _try in range(30):
            op = rnd.choice(ALL_OPS + ['append', 'insert', 'insertBefore', 'replaceChild'])
            r = rnd.choice(receivers)
            ks = kids(r)
            cand = [x for x in w.n if eligible(r, x)]
            e = None
            if op == 'append' and cand:
                e = dict(op=op, r=r, x=rnd.choice(cand), i=0, y=NONE)
            elif op == 'insert' and cand:
                e = dict(op=op, r=r, x=rnd.choice(cand), i=rnd.randint(0, len(ks) + 2), y=NONE)
            elif op in ('insertBefore', 'insertAfter', 'replaceChild') and ks:
                ref = rnd.choice(ks)
                c2 = cand + [k for k in ks if k != ref and k not in frags]
                c2 = [x for x in c2 if x != ref]
                if c2:
                    e = dict(op=op, r=r, x=rnd.choice(c2), i=0, y=ref)
            elif op == 'removeChild' and ks:
                e = dict(op=op, r=r, x=rnd.choice(ks), i=0, y=NONE)
            elif op == 'pop' and ks:
                e = dict(op=op, r=r, x=NONE, i=rnd.randint(0, len(ks) - 1), y=NONE)
            elif op == 'setitem' and ks and cand:
                e = dict(op=op, r=r, x=rnd.choice(cand), i=rnd.randint(0, len(ks) - 1), y=NONE)
            elif op == 'extend':
                c2 = [x for x in cand if x not in frags]
                rnd.shuffle(c2)
                for a in c2:
                    for b in c2:
                        if a != b and a not in desc(b) and b not in desc(a):
                            e = dict(op=op, r=r, x=a, i=0, y=b)
                            break
                    if e:
                        break
            elif op == 'normalize':
                e = dict(op=op, r=r, x=NONE, i=0, y=NONE)
            elif op == 'clone' and r in elems:
                e = dict(op=rnd.choice(['cloneDeep', 'cloneShallow']), r=r, x=NONE, i=0, y=NONE)
            elif op == 'notfound':
                which = rnd.randint(0, 2)
                non = [k for k in elems + texts if k not in ks and k != r]
                if which == 0 and non:
                    e = dict(op='removeChildNotFound', r=r, x=rnd.choice(non), i=0, y=NONE)
                elif which == 1:
                    c2 = [x for x in cand if x not in frags]
                    if c2:
                        x = rnd.choice(c2)
                        non2 = [k for k in non if k != x]
                        if non2:
                            e = dict(op='insertBeforeNotFound', r=r, x=x, i=0, y=rnd.choice(non2))
                elif which == 2 and not ks:
                    e = dict(op='popEmpty', r=r, x=NONE, i=0, y=NONE)
            if e:
                break
        if not e:
            break
        pre = _subtree_kids(w, e['r']) if e['op'] == 'normalize' else None
        try:
            err = w.apply(e)
        except Exception as ex:
            err = 'raised %s: %s' % (type(ex).__name__, ex)
        if e['op'] == 'normalize':
            _rebind_after_normalize(w, pre)
        if e['x'] in frags:
            used.add(e['x'])
        e['post'] = proj()
        e['err'] = err or ''
        ev.append(e)
        if err:
            break
    return ev


def _merge_runs(names, texts):
    out = []
    for k in names:
        if k in texts and out and out[-1] in texts:
            continue
        out.append(k)
    return out


def _subtree_kids(w, r):
    pre = {}
    stack = [r]
    while stack:
        k = stack.pop()
        if k in w.texts:
            continue
        pre[k] = w.kids(k)
        stack.extend(pre[k])
    return pre


def _rebind_after_normalize(w, pre):
    """normalize replaces every run of text children by ONE new node.  Name the new node after the
    first old text node of its run (the model's representative); binding is by position only, the
    content is checked by TLC against the specification."""
    for k, names in pre.items():
        merged = _merge_runs(names, w.texts)
        node = w.n[k]
        real = list(node.childNodes) if node.hasChildNodes() else []
        if len(real) != len(merged):
            continue        # TLC will reject the logged state
        for name, obj in zip(merged, real):
            if name in w.texts:
                w.n[name] = obj


# ---------------------------------------------------------------------------
CFG_ATTR = '''CONSTANTS
  MaxLen = %d
  GuardFirst = FALSE
INIT Init
NEXT Next
CHECK_DEADLOCK FALSE
INVARIANT NormalizeIsMerged
INVARIANT NormalizedEverywhere
INVARIANT Emit
'''


def replay_attr(beh):
    """DomAttr.tla -> Node.normalize on a real tree whose elements hold document fragments as attribute values.
    The tree is built bottom-up with append only (no child list is read before normalize is called)."""
    from plasTeX.DOM import Document, Node
    doc = Document()
    k = [0]

    def build(n):
        if n['k'] == 't':
            k[0] += 1
            return doc.createTextNode('t%d ' % k[0])
        e = doc.createElement('el')
        for c in (n['kids'] or []):
            e.append(build(c))
        if n['hasattr']:
            f = doc.createDocumentFragment()
            for c in (n['attr'] or []):
                f.append(build(c))
            e.attributes['arg'] = f
        return e

    def shape(node):
        if node.nodeType == Node.TEXT_NODE:
            return {'k': 't'}
        kids = [shape(c) for c in node]
        a = node.attributes.get('arg') if getattr(node, 'attributes', None) else None
        return {'k': 'e', 'kids': kids, 'hasattr': a is not None, 'attr': [shape(c) for c in a] if a is not None else []}

    def words(node, out):
        if node.nodeType == Node.TEXT_NODE:
            out.extend(str(node).split())
            return out
        a = node.attributes.get('arg') if getattr(node, 'attributes', None) else None
        if a is not None:
            for c in a:
                words(c, out)
        for c in node:
            words(c, out)
        return out
    root = build(beh['root'])
    before = words(root, [])
    try:
        root.normalize()
    except Exception as ex:
        return 'attr:raise', 'normalize raised %s: %s on %s' % (type(ex).__name__, ex, beh['root'])

    def canon(n):
        if n['k'] == 't':
            return {'k': 't'}
        return {'k': 'e', 'kids': [canon(c) for c in (n['kids'] or [])], 'hasattr': bool(n['hasattr']), 'attr': [canon(c) for c in (n['attr'] or [])]}
    got, want = shape(root), canon(beh['after'])
    if got != want:
        return 'attr:normalize', 'normalize() leaves %s, specification %s (tree %s)' % (got, want, canon(beh['root']))
    if words(root, []) != before:
        return 'attr:text', 'normalize() changed the text: %s, before %s' % (words(root, []), before)
    return 'ok', ''


def run(chk):
    tier, seed = chk.tier, chk.seed
    chk.rule = ('behaviours = operation sequences printed by TLC from Dom.tla (one per distinct reachable state; thorough: plus '
                'every path up to length 2); non-trivial = the sequence changes the tree and involves at least two '
                'distinct nodes besides the root; distinct by content hash of the operation sequence')
    chk.assumptions = ['NF-DOM: new children are detached nodes, unused fragments, or (insertBefore/insertAfter/'
                       'replaceChild) children of the same parent; reference children are children of the receiver '
                       'unless the modelled NotFound action is taken',
                       'text node identity after normalize is re-bound by position (the code creates new nodes)']
    small = pool(False)
    elems, texts, frags, tag, txt0 = small

    # 1+2. design check (hist hidden by VIEW: every distinct state once) which also prints one behaviour
    #      per distinct state; thorough: additionally every path of length <= 2
    maxops = 3 if tier == 'quick' else 4
    runs = [('mc+states', CFG_MC + 'INVARIANT EmitState\n', maxops)]
    if tier == 'thorough':
        # finer VIEW: every distinct (operation, resulting state) pair is exported, not only every state
        runs.append(('ops', (CFG_MC + 'INVARIANT EmitState\n').replace('VIEW view', 'VIEW viewop'), 3))
    seen = set()
    for label, cfg, mo in runs:
        mod = mc_module('MC_Dom', 'Dom', elems, texts, frags, tag, txt0, mo, ALL_OPS)
        r = tlc.run('MC_Dom', cfg_text=cfg, extra_modules={'MC_Dom.tla': mod}, coverage=(label == 'mc+states'),
                    timeout=3400)
        chk.add_tlc(r, '%s(MaxOps=%d)' % (label, mo))
        if label == 'mc+states':
            if not r.ok:
                chk.violation('design:' + ','.join(r.violated or ['error']),
                              'TLC found a counterexample in the Dom design: %s\n%s' % (r.violated, r.trace_text[:3000]))
            must = ['DoAppend', 'DoInsert', 'DoInsertBefore', 'DoInsertAfter', 'DoReplaceChild', 'DoRemoveChild',
                    'DoPop', 'DoSetItem', 'DoExtend', 'DoNormalize', 'DoClone', 'DoRemoveNotFound',
                    'DoInsertBeforeNotFound', 'DoPopEmpty']
            missing = [a for a in must if r.coverage.get(a, (0, 0))[1] == 0]
            if missing and r.ok:
                raise MachineryError('C06: actions never taken in the model: %s' % missing)
        if not r.beh:
            raise MachineryError('C06: no behaviours emitted')
        todo = []
        for rec in r.beh:
            key = json.dumps([[e[k] for k in ('op', 'r', 'x', 'i', 'y')] for e in rec['h']])
            if key in seen:
                continue
            seen.add(key)
            todo.append(rec)
        global _POOL
        _POOL = small
        results = pmap(_replay_one, todo, chunksize=200)
        for rec, (ok, msg, step) in zip(todo, results):
            key = [[e[k] for k in ('op', 'r', 'x', 'i', 'y')] for e in rec['h']]
            names = set()
            for e in rec['h']:
                names.update(z for z in (e['r'], e['x'], e['y']) if z not in (NONE, 'R'))
            changes = any(e['op'] not in ('cloneDeep', 'cloneShallow', 'removeChildNotFound', 'insertBeforeNotFound', 'popEmpty')
                          for e in rec['h'])
            chk.case(key, changes and len(names) >= 2, [fmt(e) for e in rec['h']] if len(rec['h']) >= 3 else None)
            chk.traces += 1
            if not ok:
                chk.violation(signature(rec, step, msg), msg, {'ops': [fmt(e) for e in rec['h']], 'behaviour': rec})
    chk.exhaustive = True
    # normalize through attribute values (DomAttr.tla)
    ra = tlc.run('DomAttr', cfg_text=CFG_ATTR % (2 if tier == 'quick' else 3), timeout=3400, heap='8g')
    chk.add_tlc(ra, 'normalize-attributes(MaxLen=%d)' % (2 if tier == 'quick' else 3))
    if not ra.ok:
        chk.violation('design:attr:' + ','.join(ra.violated or ['error']), 'DomAttr.tla: %s\n%s' % (ra.violated, ra.trace_text[:2000]))
    if not ra.beh:
        raise MachineryError('C06: no attribute behaviours emitted')
    for beh, (kind, msg) in zip(ra.beh, pmap(replay_attr, ra.beh, chunksize=100)):
        chk.case(['attr', beh['root']], bool(beh['root']['hasattr'] or any(c.get('hasattr') for c in (beh['root']['kids'] or []))))
        chk.traces += 1
        if kind != 'ok':
            chk.violation('replay:' + kind, msg, beh)
    chk.extra['bounds'] = {'pool': {'elements': elems, 'texts': texts, 'fragments': frags},
                           'MaxOps_design_and_states': maxops, 'every_operation_result_pair_upto': 3 if tier == 'thorough' else 0}

    # 3. code -> spec
    big = pool(True)
    rnd = random.Random(seed)
    ntr = 150 if tier == 'quick' else 1500
    lines = []
    for i in range(ntr):
        ev = random_trace(rnd, big, rnd.randint(5, 40))
        lines.append(ev)
        for e in ev:
            if e.get('err'):
                chk.violation('trace:raise:%s' % e['op'], 'random edit sequence: %s %s (sequence %s)'
                              % (fmt(e), e['err'], [fmt(z) for z in ev]), ev)
    wd = tlc.make_workdir()
    try:
        tf = os.path.join(wd, 'trace.ndjson')
        with open(tf, 'w') as f:
            for ev in lines:
                f.write(json.dumps({'ev': [dict((k, v) for k, v in e.items() if k != 'err') for e in ev]}) + '\n')
        be, bt, bf, btag, btxt = big
        mod = mc_module('MC_DomTrace', 'DomTrace', be, bt, bf, btag, btxt, 1000, ALL_OPS)
        rt = tlc.run('MC_DomTrace', cfg_text=CFG_TRACE, extra_modules={'MC_DomTrace.tla': mod}, workdir=wd, workers=1,
                     env={'TRACE_FILE': tf}, timeout=3400)
    finally:
        shutil.rmtree(wd, ignore_errors=True)
    chk.add_tlc(rt, 'trace-validation(%d traces)' % ntr)
    rej = [p for tag_, p in rt.prints if tag_ == 'REJ']
    if not rej:
        if not rt.violated:
            raise MachineryError('C06: trace validation printed no verdict:\n' + rt.out[-3000:])
        rej = [{}]      # TLC stopped at the invariant violation before the verdict was printed: reported below
    chk.traces += ntr
    chk.evaluations += ntr
    if rt.violated:
        chk.violation('trace-invariant:' + ','.join(rt.violated),
                      'an invariant failed on a recorded execution: %s\n%s' % (rt.violated, rt.trace_text[:3000]))
    rejected = rej[-1] if isinstance(rej[-1], dict) else {}
    for tid_s, reached in rejected.items():
        ev = lines[int(tid_s) - 1]
        k = int(reached) - 1
        e = ev[k]
        chk.violation('trace:rejected:%s' % e['op'],
                      'recorded DOM trace rejected by the specification at step %d %s; sequence %s; logged state %s'
                      % (k + 1, fmt(e), [fmt(z) for z in ev[:k + 1]], e['post']), ev[:k + 1])
    chk.extra['trace_steps'] = sum(len(ev) for ev in lines)

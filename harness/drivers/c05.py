"""C05 -- arguments are delimited, typed and bound as the signature declares; numerals denote TeX's values.

spec -> code : (1) TLC enumerates every signature of 1..MaxArgs argument specifications (star, [], (), <>, mandatory) x
               every conforming call built from the fragment catalogue of Args.tla (optional present/absent, nested same-kind
               brackets, braces hiding a closer, blanks, single-token mandatory arguments, control sequences) x followers,
               checks the reader machine (readGrouping / readToken / readCharacter) against what was written, and every
               behaviour is replayed on a real Command subclass with that signature: bound attributes, remaining text and
               the balance of the parameter-scanning switch are compared.
               (2) the typed-argument table of Args.tla is run through the real cast functions.
               (3) TLC enumerates every numeral of the grammar in Numbers.tla (sign runs x radix / fraction forms x blanks x
               'true' x 13 unit spellings x register forms x fil orders x followers) with its denotation; each is fed to
               the real readInteger / readDimen / readGlue and value (exact rational, < 1sp) and remaining tokens compared.
"""
import os
import re
from fractions import Fraction

from .. import tlc
from ..core import MachineryError, pmap

CFG_ARGS = '''CONSTANTS
  MaxArgs = %d
  BraceAware = %s
  UrlTyped = TRUE
  RestoreOnAbsent = TRUE
INIT Init
NEXT Next
CHECK_DEADLOCK FALSE
INVARIANT CatcodesRestored
INVARIANT BindsDeclared
INVARIANT ConsumesExactly
INVARIANT NeverStuck
INVARIANT Emit
'''
CFG_TYPED = '''CONSTANTS
  MaxArgs = 1
  BraceAware = TRUE
  UrlTyped = FALSE
  RestoreOnAbsent = TRUE
INIT Init
NEXT Next
CHECK_DEADLOCK FALSE
INVARIANT EmitTyped
'''
CFG_NUM = '''CONSTANTS
  Kind = "%s"
INIT Init
NEXT Next
CHECK_DEADLOCK FALSE
INVARIANT UnitsKnown
INVARIANT Emit
'''


def src_of(toks):
    out = []
    for i, t in enumerate(toks):
        out.append(t)
        if len(t) > 1 and t[0] == '\\' and t[-1].isalpha():
            out.append(' ')
    return ''.join(out)


def argstring(sig, typ='nox', brtyp=None):
    parts = []
    for j, k in enumerate(sig):
        n = 'a%d:%s' % (j + 1, typ if k == 'man' or brtyp is None else brtyp)
        parts.append({'star': '*', 'opt': '[ %s ]' % n, 'paren': '( %s )' % n, 'angle': '< %s >' % n, 'man': n}[k])
    return ' '.join(parts)


_CLS = {}


def make_class(args):
    from plasTeX import Command
    if args not in _CLS:
        _CLS[args] = type('vmac', (Command,), {'args': args, 'macroName': 'vmac'})
    return _CLS[args]


def norm_tokens(v):
    """attribute value (list of tokens / token / None) -> list of token texts in the spec's alphabet"""
    if v is None:
        return ['ABSENT']
    if not isinstance(v, list):
        v = [v]
    out = []
    for t in v:
        s = t.source if hasattr(t, 'source') else str(t)
        s = s.strip() if s.startswith('\\') else s
        out.append(s)
    return out


def replay_args(beh):
    r = replay_args_typed(beh, None)
    if r[0] != 'ok' or not any(k in ('opt', 'paren', 'angle') for k in beh['sig']):
        return r
    # the same call with the bracketed arguments declared as url: binding is the same, and the category codes the type
    # changes while reading (# ~ % &) are the usual ones again afterwards
    return replay_args_typed(beh, 'url')


def replay_args_typed(beh, brtyp):
    from plasTeX.TeX import TeX
    from plasTeX import TeXDocument, ParameterCommand
    sig = beh['sig']
    cls = make_class(argstring(sig, brtyp=brtyp))
    d = TeXDocument()
    d.context.addGlobal('vmac', cls)
    tail = src_of(beh['call']) + src_of(beh['follower'])
    text = '\\vmac' + (' ' if tail[:1].isalpha() else '') + tail
    t = TeX(d)
    t.input(text + '|')
    lvl0 = ParameterCommand._enablelevel
    try:
        toks = []
        it = t.itertokens()
        # run the macro ourselves: read \vmac, invoke its parse, then collect what is left
        first = next(it)
        obj = d.createElement('vmac')
        obj.parse(t)
        rest = []
        for x in t.itertokens():
            if str(x) == '|':
                break
            rest.append(x)
    except Exception as ex:
        return 'raise', 'signature %r call %r raised %s: %s' % (argstring(sig, brtyp=brtyp), text, type(ex).__name__, ex)
    if ParameterCommand._enablelevel != lvl0:
        lv = ParameterCommand._enablelevel
        ParameterCommand._enablelevel = lvl0
        return 'plevel', 'signature %r call %r left the parameter-scanning switch at level %s (was %s)' % (argstring(sig), text, lv, lvl0)
    if brtyp:
        codes = dict((c, d.context.whichCode(c)) for c in '#~%&')
        if codes != {'#': 6, '~': 13, '%': 14, '&': 4} or any(str(x) == '~' and x.catcode != 13 for x in rest):
            return 'catcodes', 'signature %r call %r: after the invocation the category codes of # ~ %% & are %s and the text that follows was read as %s' % (
                argstring(sig, brtyp=brtyp), text, codes, [(str(x), x.catcode) for x in rest])
        if beh.get('cat') != 'normal':
            return 'catcodes-spec', 'the specification leaves the %s category codes in force' % beh.get('cat')
    got = []
    for j, k in enumerate(sig):
        name = '*modifier*' if k == 'star' else 'a%d' % (j + 1)
        got.append(norm_tokens(obj.attributes.get(name)))
    want = [list(w) for w in beh['want']]
    if brtyp:
        # a url-typed value is kept as it was written: compare the characters
        got = [''.join(g) for g in got]
        want = [''.join(src_of(w).split()) if w != ['ABSENT'] else 'ABSENT' for w in want]
        got = [''.join(g.split()) for g in got]
    if got != want:
        return 'bound' + (':url' if brtyp else ''), 'signature %r call %r bound %s, written %s' % (argstring(sig, brtyp=brtyp), text, got, want)
    rest_txt = ''.join(norm_tokens(rest) if rest else []).replace('ABSENT', '')
    want_rest = ''.join(beh['follower'])
    if rest_txt.strip() != want_rest.strip():
        return 'rest', 'signature %r call %r left %r, the text after the invocation is %r' % (argstring(sig), text, rest_txt, want_rest)
    return 'ok', ''


def run_typed(chk, table):
    from plasTeX.TeX import TeX
    from plasTeX import TeXDocument
    for e in table:
        ty = e['ty']
        cls = make_class('a1:%s' % ty)
        d = TeXDocument()
        d.context.addGlobal('vmac', cls)
        text = '\\vmac ' + src_of(e['t']) + 'Z'
        t = TeX(d)
        t.input(text)
        chk.case(['typed', ty, e['t']], True, {'typed': ty, 'call': text, 'denotes': e['v']} if ty in ('dict', 'list') else None)
        chk.traces += 1
        try:
            next(t.itertokens())
            obj = d.createElement('vmac')
            obj.parse(t)
            v = obj.attributes['a1']
        except Exception as ex:
            chk.violation('typed:raise:' + ty, 'argument a1:%s with %r raised %s: %s' % (ty, text, type(ex).__name__, ex), e)
            continue

        def txt(x):
            if hasattr(x, 'textContent') and not isinstance(x, str):
                return str(x.textContent)
            if isinstance(x, list):
                return ''.join(txt(y) for y in x)
            return str(x.source if hasattr(x, 'source') and str(x).startswith('\\') is False and False else x)
        if ty in ('list', 'list(;)'):
            got = '|'.join(txt(x).strip() for x in v)
        elif ty == 'dict':
            got = '|'.join('%s=%s' % (txt(k).strip(), txt(x).strip() if x is not True else 'True') for k, x in sorted(v.items(), key=lambda kv: txt(kv[0])))
        elif ty in ('int', 'Number'):
            got = str(int(v))
        elif ty == 'float':
            got = repr(float(v))
        elif ty == 'Dimen':
            from plasTeX import dimen
            got = 'ok' if abs(float(v) - float(dimen('1.5cm'))) < 1 else repr(v)
            e = dict(e, v='ok')
        elif ty in ('Tok', 'nox'):
            got = ' '.join(s.strip() for s in norm_tokens(v))
        else:
            got = txt(v)
        if got != e['v']:
            chk.violation('typed:value:' + ty, 'argument a1:%s written %r was bound to %r, the type denotes %r' % (ty, text, got, e['v']), e)


# ---------------------------------------------------------------------------
def exact_sp(num, den, unit, units):
    u = units[unit]
    return Fraction(num, den) * Fraction(u[0], u[1])


def replay_num(beh):
    from plasTeX.TeX import TeX
    from plasTeX import TeXDocument, ParameterCommand
    lit, fol, units = beh['lit'], beh['follow'], beh['units']
    d = TeXDocument()
    c = d.context
    c.newcount('vcnt', 5)
    c.newdimen('vdim', 0)
    from plasTeX import dimen
    c['vdim'].value = dimen('3pt')
    text = src_of(lit['t']) + src_of(fol) + '|'
    t = TeX(d)
    t.input(text)
    lvl0 = ParameterCommand._enablelevel
    try:
        if lit['k'] == 'int':
            v = t.readInteger()
        elif lit['k'] == 'dimen':
            v = t.readDimen()
        else:
            v = t.readGlue()
        rest = []
        for x in t.itertokens():
            if str(x) == '|':
                break
            rest.append(x)
    except Exception as ex:
        c['vdim'].value = dimen(0)
        return 'raise', '%s literal %r raised %s: %s' % (lit['k'], text, type(ex).__name__, ex)
    finally:
        try:
            c['vdim'].value = dimen(0)
            c['vcnt'].value = 0
        except Exception:
            pass
    if ParameterCommand._enablelevel != lvl0:
        lv = ParameterCommand._enablelevel
        ParameterCommand._enablelevel = lvl0
        return 'plevel', '%s literal %r left the parameter-scanning switch at level %s' % (lit['k'], text, lv)
    rest_txt = ''.join(norm_tokens(rest)) if rest else ''
    want_rest = ''.join(fol)
    if lit['k'] == 'int':
        want = lit['sign'] * lit['v']
        if int(v) != want:
            return 'value', 'integer literal %r read as %s, TeX value %s' % (text, int(v), want)
    else:
        want = lit['sign'] * exact_sp(lit['num'], lit['den'], lit['unit'], units)
        if abs(Fraction(float(v)) - want) >= 1:
            return 'value', '%s literal %r read as %r sp, TeX value %s sp' % (lit['k'], text, float(v), float(want))
        if lit['k'] == 'glue':
            for comp, name in ((getattr(v, 'stretch', None), 'stretch'), (getattr(v, 'shrink', None), 'shrink')):
                w = lit[name]
                if w['order'] == -1:
                    if comp is not None:
                        return 'glue-' + name, 'glue literal %r has %s %r although none was written' % (text, name, comp)
                    continue
                if comp is None:
                    return 'glue-' + name, 'glue literal %r lost its %s component' % (text, name)
                src = comp.source if hasattr(comp, 'source') else str(comp)
                if w['order'] == 0:
                    wv = exact_sp(w['num'], w['den'], 'pt', units)
                    if abs(Fraction(float(comp)) - wv) >= 1:
                        return 'glue-' + name, 'glue literal %r: %s read as %r sp, TeX %s sp' % (text, name, float(comp), float(wv))
                else:
                    unit = 'fil' + 'l' * (w['order'] - 1)
                    m = re.match(r'^(-?[0-9.]+)(fil+)$', src.strip())
                    if not m or m.group(2) != unit or abs(Fraction(m.group(1)) - Fraction(w['num'], w['den'])) > Fraction(1, 1000):
                        return 'glue-fil', 'glue literal %r: %s component reads back as %r, TeX: %s%s' % (text, name, src, float(Fraction(w['num'], w['den'])), unit)
    if rest_txt.strip() != want_rest.strip():
        return 'rest', '%s literal %r left %r, the text after the literal is %r' % (lit['k'], text, rest_txt, want_rest)
    return 'ok', ''


def run(chk):
    tier = chk.tier
    chk.rule = ('calls: every signature up to MaxArgs x fragment catalogue x follower (conforming); numerals: every member of the '
                'bounded grammar x follower; non-trivial = an optional argument or nested/hidden delimiter is involved, resp. a sign run, '
                'non-decimal radix, fraction, unit prefix or fil component; distinct by content')
    chk.assumptions = ['arguments are read with type nox so that the bound value is the token list (typed casts are checked by the typed table)',
                       'magnitudes: TLC supplies exact rational denotations, the < 1sp comparison is done by the harness with fractions.Fraction '
                       '(values exceed TLC\'s 32-bit integers)', 'TeX rounds to sp with fixed-point arithmetic, plasTeX keeps floats: agreement is < 1 sp']
    brace = 'FALSE' if os.environ.get('C05_ASBUILT') else 'TRUE'
    maxargs = 2 if tier == 'quick' else 3
    res = tlc.run('Args', cfg_text=CFG_ARGS % (maxargs, brace), timeout=3400, heap='12g')
    chk.add_tlc(res, 'args(MaxArgs=%d)' % maxargs)
    if not res.ok:
        chk.violation('design:args:' + ','.join(res.violated or ['error']),
                      'TLC found a counterexample in the argument reader: %s\n%s' % (res.violated, res.trace_text[:2500]))
    if not res.beh:
        raise MachineryError('C05: no argument behaviours emitted')
    behs = res.beh
    if len(behs) > 150000:
        # every call of <= 2 arguments, a seeded sample of the 3-argument ones (TLC has checked all of them)
        import random
        small = [b for b in behs if len(b['sig']) <= 2]
        big = [b for b in behs if len(b['sig']) > 2]
        random.Random(chk.seed).shuffle(big)
        behs = small + big[:150000 - len(small)]
        chk.extra['args_replayed'] = '%d of %d generated calls' % (len(behs), len(res.beh))
    results = pmap(replay_args, behs, chunksize=200)
    for beh, (kind, msg) in zip(behs, results):
        nt = any(k != 'man' for k in beh['sig']) and any(len(w) > 2 for w in beh['want'])
        chk.case(['args', beh['sig'], beh['call'], beh['follower']], nt,
                 {'signature': argstring(beh['sig']), 'call': src_of(beh['call']) + src_of(beh['follower'])} if nt and len(beh['call']) > 12 else None)
        chk.traces += 1
        if kind != 'ok':
            hidden = any(('{' in w and (']' in w or ')' in w or '>' in w or '[' in w or '(' in w or '<' in w)) for w in beh['want'])
            chk.violation('args:%s%s' % (kind, ':brace-hidden-bracket' if hidden else ''), msg, beh)
    rt = tlc.run('Args', cfg_text=CFG_TYPED, timeout=600)
    chk.add_tlc(rt, 'typed-table')
    typed = [p for tag, p in rt.prints if tag == 'TYPED']
    if not typed:
        raise MachineryError('C05: typed table not printed')
    run_typed(chk, typed[0])
    for kind in ('int', 'dimen', 'glue'):
        rn = tlc.run('Numbers', cfg_text=CFG_NUM % kind, timeout=3400, heap='8g')
        chk.add_tlc(rn, 'numerals(%s)' % kind)
        if not rn.ok:
            chk.violation('design:numbers:' + ','.join(rn.violated or ['error']), 'Numbers.tla: %s\n%s' % (rn.violated, rn.trace_text[:2000]))
        if not rn.beh:
            raise MachineryError('C05: no %s numerals emitted' % kind)
        behs = rn.beh
        results = pmap(replay_num, behs, chunksize=200)
        for beh, (k2, msg) in zip(behs, results):
            lit = beh['lit']
            nt = len(lit['t']) > 3
            chk.case(['num', lit['t'], beh['follow']], nt, {'literal': src_of(lit['t']), 'kind': kind} if nt and len(chk.samples) < 6 and kind != 'int' else None)
            chk.traces += 1
            if k2 != 'ok':
                chk.violation('num:%s:%s' % (kind, k2), msg, beh)
    chk.exhaustive = len(behs) == len(res.beh)
    chk.extra['bounds'] = {'MaxArgs': maxargs}


def replay_case(payload):
    """re-execute one recorded behaviour (argument call or numeral) against the current tree"""
    if 'sig' in payload:
        kind, msg = replay_args(payload)
    else:
        kind, msg = replay_num(payload)
    return kind == 'ok', msg

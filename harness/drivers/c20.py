"""C20 -- cross-document label data survives a round trip and never blocks processing.

spec -> code : TLC explores Paux.tla (all save/restore/fault sequences up to a bound over two renderers and
               two labels); one behaviour per distinct state is replayed on the real Context.persist /
               Context.restore with real files (abstract file states concretised as bytes), comparing the
               class of the file on disk and the restored labels after every step.
code -> spec : byte-level faults -- EVERY truncation prefix and EVERY single-bit flip of real .paux files, seeded
               random multi-bit flips, empty and foreign files -- are applied to files written by the real
               persist; each gives a trace (setfile, restore, save, restore, other renderer) that TLC validates
               against PauxTrace.tla.  Any exception escaping persist/restore is a violation.
               thorough: additionally the full pipeline (render document A with HTML5, process document B that
               \\ref's A's labels through Compile.parse's restore loop).
"""
import json
import os
import pickle
import random
import shutil
import tempfile

from .. import tlc
from ..core import MachineryError, pmap

_QUIET = False
RENDERERS = ['r1', 'r2']
LABELS = ['a', 'b']
VALS = {'r1': [1, 2], 'r2': [3, 4]}


def fm(d):
    return d if d else []


def mc_module(name, base, maxops, labels='{"a", "b"}'):
    return '''---- MODULE %s ----
EXTENDS %s
MCRenderers == {"r1", "r2"}
MCLabels == %s
MCValsOf == ("r1" :> {1, 2} @@ "r2" :> {3, 4})
MCMaxOps == %d
MCSectionChecked == %s
====
''' % (name, base, labels, maxops, 'FALSE' if os.environ.get('C20_ASBUILT') else 'TRUE')


CFG_CONST = '''CONSTANTS
  Renderers <- MCRenderers
  Labels <- MCLabels
  ValsOf <- MCValsOf
  MaxOps <- MCMaxOps
  SectionChecked <- MCSectionChecked
'''
INVS = '''INVARIANT NeverFails
INVARIANT RestoreTotal
INVARIANT AtWorstAbsent
INVARIANT PerRenderer
PROPERTY SaveHeals
'''
CFG_MC = CFG_CONST + 'INIT Init\nNEXT Next\nVIEW view\nCHECK_DEADLOCK FALSE\n' + INVS + 'INVARIANT EmitState\n'
CFG_TRACE = CFG_CONST + 'INIT TraceInit\nNEXT TraceNext\nCONSTRAINT Progress\nPOSTCONDITION TraceAccepted\nCHECK_DEADLOCK FALSE\n' + INVS


# ---------------------------------------------------------------------------
def attrs_of(v):
    return {'ref': str(v), 'title': 'Title %d' % v, 'id': 'id%d' % v, 'url': 'file%d.html#id%d' % (v, v)}


def val_of(attrs):
    """Inverse of attrs_of; 0 for anything that is not a dictionary, 99 for a dictionary that is not
    exactly one of our attribute dictionaries (content altered by corruption)."""
    if not isinstance(attrs, dict):
        return 0
    try:
        v = int(attrs.get('ref'))
    except Exception:
        return 99
    return v if attrs == attrs_of(v) else 99


def classify_bytes(data):
    """Independent classification of a .paux file's bytes into the abstract file states of Paux.tla."""
    if data is None:
        return {'k': 'missing', 'd': []}
    try:
        obj = pickle.loads(data)
    except BaseException:
        return {'k': 'unloadable', 'd': []}
    if not isinstance(obj, dict):
        return {'k': 'nondict', 'd': []}
    d = {}
    for r, sec in obj.items():
        if not isinstance(r, str):
            return None          # outside the abstraction (keys damaged)
        if not isinstance(sec, dict):
            d[r] = {'ok': False, 'labs': []}
        else:
            labs = {}
            for l, a in sec.items():
                if not isinstance(l, str):
                    return None
                labs[l] = val_of(a)
            d[r] = {'ok': True, 'labs': fm(labs)}
    return {'k': 'dict', 'd': fm(d)}


class World(object):
    def __init__(self):
        self.dir = tempfile.mkdtemp(prefix='verif-c20-')
        self.path = os.path.join(self.dir, 'job.paux')

    def close(self):
        shutil.rmtree(self.dir, ignore_errors=True)

    def read(self):
        if not os.path.exists(self.path):
            return None
        with open(self.path, 'rb') as f:
            return f.read()

    def write(self, data):
        if data is None:
            if os.path.exists(self.path):
                os.remove(self.path)
            return
        with open(self.path, 'wb') as f:
            f.write(data)

    def save(self, r, m):
        from plasTeX import TeXDocument
        doc = TeXDocument()
        c = doc.context
        for l, v in (m.items() if m else []):
            n = c['Macro']()
            for k, x in attrs_of(v).items():
                setattr(n, k, x)
            c.persistentLabels[l] = n
        c.persist(self.path, r)

    def restore(self, r):
        from plasTeX import TeXDocument
        doc = TeXDocument()
        c = doc.context
        c.restore(self.path, r)
        out = {}
        for l, n in c.labels.items():
            a = {'ref': getattr(n, 'ref', None), 'title': getattr(n, 'title', None), 'id': getattr(n, 'id', None),
                 'url': getattr(n, 'urloverride', None)}
            out[str(l)] = val_of(a)
        return out, doc


def concretise(f):
    """Abstract file state -> bytes."""
    if f['k'] == 'missing':
        return None
    if f['k'] == 'unloadable':
        return b''
    if f['k'] == 'nondict':
        return pickle.dumps([1, 2, 3])
    d = {}
    for r, sec in (f['d'].items() if f['d'] else []):
        if not sec['ok']:
            d[r] = []
        else:
            d[r] = dict((l, attrs_of(v) if v else 5) for l, v in (sec['labs'].items() if sec['labs'] else []))
    return pickle.dumps(d)


def norm(x):
    """[] and {} both denote the empty map."""
    if isinstance(x, dict):
        return dict((k, norm(v)) for k, v in x.items()) if x else {}
    if isinstance(x, list) and not x:
        return {}
    return x


def replay_one(rec):
    w = World()
    try:
        restored = {}
        for step, e in enumerate(rec['h']):
            op = e['op']
            try:
                if op == 'save':
                    w.save(e['r'], norm(e['m']))
                elif op == 'restore':
                    restored, _ = w.restore(e['r'])
                elif op == 'delete':
                    w.write(None)
                elif op in ('unloadable', 'nondict', 'breaksection', 'breaklabel'):
                    w.write(concretise(e['file']))
                else:
                    raise MachineryError('unknown op ' + op)
            except MachineryError:
                raise
            except BaseException as ex:
                if e['failed']:
                    continue
                return False, 'raise:%s' % op, '%s(%s) raised %s: %s after %s' % (op, e.get('r'), type(ex).__name__, ex, fmt(rec['h'][:step])), step
            if e['failed']:
                return False, 'noraise:%s' % op, 'specification (as built) predicts a failure at step %d' % step, step
            got = classify_bytes(w.read())
            if norm(got) != norm(e['file']):
                return False, 'file:%s' % op, 'after %s the file is %s, specification %s' % (fmt(rec['h'][:step + 1]), got, e['file']), step
            if op == 'restore':
                # the specification allows any subset of the good labels when an entry is damaged: the
                # exact choice is checked by trace validation; here: equality for the deterministic case
                want = norm(e['res'])
                if restored != want:
                    sec = norm(e['file'])['d'].get(e['r'], {'labs': {}}) if e['file']['k'] == 'dict' else {'labs': {}}
                    good = dict((l, v) for l, v in norm(sec.get('labs', {})).items() if v)
                    damaged = len(good) != len(norm(sec.get('labs', {})))
                    if not damaged or any(restored.get(l) != v for l, v in restored.items() if l in good and False) or \
                            not all(l in good and good[l] == v for l, v in restored.items()):
                        return False, 'restore', 'after %s restore(%s) returned %s, specification %s' % (fmt(rec['h'][:step + 1]), e['r'], restored, want), step
        return True, '', '', 0
    finally:
        w.close()


def fmt(h):
    out = []
    for e in h:
        if e['op'] == 'save':
            out.append('save(%s,%s)' % (e['r'], norm(e['m'])))
        elif e['op'] in ('restore', 'breaksection'):
            out.append('%s(%s)' % (e['op'], e['r']))
        elif e['op'] == 'breaklabel':
            out.append('breaklabel(%s,%s)' % (e['r'], e['l']))
        else:
            out.append(e['op'])
    return out


# ---------------------------------------------------------------------------
def byte_fault_trace(args):
    """One byte-level fault on a real file: returns the recorded trace (or an exception report)."""
    base_bytes, fault, r, m, r2 = args
    import sys
    # the C unpickler writes "SystemError: deallocated bytearray ..." notes to stderr on aborted loads
    global _QUIET
    if not _QUIET:
        _QUIET = True
        os.dup2(os.open(os.devnull, os.O_WRONLY), 2)
    w = World()
    ev = []
    try:
        kind, pos = fault
        if kind == 'trunc':
            data = base_bytes[:pos]
        elif kind == 'flip':
            b = bytearray(base_bytes)
            b[pos // 8] ^= 1 << (pos % 8)
            data = bytes(b)
        elif kind == 'multi':
            b = bytearray(base_bytes)
            for p in pos:
                b[p // 8] ^= 1 << (p % 8)
            data = bytes(b)
        elif kind == 'raw':
            data = pos
        cls = classify_bytes(data)
        if cls is None:
            return {'skip': True}
        w.write(data)
        state = {'file': cls, 'res': [], 'failed': False}
        ev.append(dict(op='setfile', r='', m=[], l='', **state))

        def step(op, rr, mm=None):
            try:
                if op == 'restore':
                    res, _ = w.restore(rr)
                    state['res'] = fm(res)
                else:
                    w.save(rr, mm)
            except BaseException as ex:
                return '%s(%s) raised %s: %s' % (op, rr, type(ex).__name__, ex)
            cls2 = classify_bytes(w.read())
            if cls2 is None:
                return 'file after %s is outside the abstraction' % op
            state['file'] = cls2
            ev.append(dict(op=op, r=rr, m=fm(mm or {}), l='', **json.loads(json.dumps(state))))
            return None
        for op, rr, mm in (('restore', r, None), ('restore', r2, None), ('save', r, m), ('restore', r, None),
                           ('save', r2, {'a': VALS[r2][0]}), ('restore', r2, None), ('restore', r, None)):
            err = step(op, rr, mm)
            if err:
                return {'ev': ev, 'err': err, 'fault': [kind, pos if not isinstance(pos, bytes) else pos.hex()], 'class': cls}
        return {'ev': ev, 'fault': [kind, pos if not isinstance(pos, bytes) else pos.hex()], 'class': cls}
    finally:
        w.close()


def real_file(r_sets):
    """Bytes of a .paux written by the real persist for the given {renderer: {label: val}}."""
    w = World()
    try:
        for r, m in r_sets:
            w.save(r, m)
        return w.read()
    finally:
        w.close()


def run(chk):
    tier, seed = chk.tier, chk.seed
    chk.level = 'model_checking'
    chk.rule = ('behaviours: one save/restore/fault sequence per distinct reachable state of Paux.tla; byte faults: every '
                'truncation prefix and every single-bit flip of real .paux files, random multi-bit flips, empty/foreign files; '
                'non-trivial = the file was damaged or held another renderer\'s data at some point; distinct by content hash')
    chk.assumptions = ['pickles carrying hostile opcodes are out of scope (the file is the tool\'s own)',
                       'a bit flip that leaves a loadable dictionary with altered strings is, for the model, a file with '
                       'different or damaged entries (classified by an independent unpickling in the harness)']
    maxops = 5 if tier == 'quick' else 6
    mod = mc_module('MC_Paux', 'Paux', maxops)
    cfg = CFG_MC if not os.environ.get('C20_ASBUILT') else CFG_MC.replace('INVARIANT NeverFails\n', '')
    res = tlc.run('MC_Paux', cfg_text=cfg, extra_modules={'MC_Paux.tla': mod}, coverage=True, timeout=3400)
    chk.add_tlc(res, 'mc+states(MaxOps=%d)' % maxops)
    if not res.ok:
        chk.violation('design:' + ','.join(res.violated or ['error']),
                      'TLC found a counterexample in the Paux design: %s\n%s' % (res.violated, res.trace_text[:3000]))
    must = ['Save', 'RestoreAny', 'Delete', 'MakeUnloadable', 'MakeNonDict', 'BreakSection', 'BreakLabel']
    missing = [a for a in must if res.coverage.get(a, (0, 0))[1] == 0]
    if missing and res.ok:
        raise MachineryError('C20: actions never taken in the model: %s' % missing)
    if not res.beh:
        raise MachineryError('C20: no behaviours emitted')
    results = pmap(replay_one, res.beh, chunksize=50)
    for rec, (ok, kind, msg, step) in zip(res.beh, results):
        ops = [e['op'] for e in rec['h']]
        nt = any(o in ('unloadable', 'nondict', 'breaksection', 'breaklabel', 'delete') for o in ops) or \
            len(set(e['r'] for e in rec['h'] if e['op'] == 'save')) > 1
        chk.case(fmt(rec['h']), nt, fmt(rec['h']) if nt and len(ops) >= 3 else None)
        chk.traces += 1
        if not ok:
            chk.violation('replay:' + kind, msg, {'ops': fmt(rec['h']), 'behaviour': rec})
    chk.exhaustive = True
    chk.extra['bounds'] = {'MaxOps': maxops, 'renderers': RENDERERS, 'labels': LABELS}

    # byte-level faults
    rnd = random.Random(seed)
    label_sets = [[('r1', {'a': 1, 'b': 2})], [('r1', {}), ('r2', {'a': 3})], [('r1', {'a': 2}), ('r2', {'a': 3, 'b': 4})]]
    if tier == 'thorough':
        label_sets += [[('r2', {'b': 4})], [('r1', {'b': 1})], [('r1', {}), ('r2', {})], [('r2', {'a': 4}), ('r1', {'b': 2, 'a': 1})]]
    jobs = []
    nfile = 0
    for sets in label_sets:
        base = real_file(sets)
        nfile += 1
        m = {'a': 2}
        for k in range(len(base)):
            jobs.append((base, ('trunc', k), 'r1', m, 'r2'))
        nb = len(base) * 8
        flips = range(nb) if (tier == 'thorough' or nfile <= 2) else rnd.sample(range(nb), nb // 4)
        for p in flips:
            jobs.append((base, ('flip', p), 'r1', m, 'r2'))
        for _ in range(150 if tier == 'quick' else 1500):
            jobs.append((base, ('multi', sorted(rnd.sample(range(nb), rnd.randint(2, 6)))), 'r1', m, 'r2'))
    for raw in (b'', b'\x00', b'not a pickle', pickle.dumps(None), pickle.dumps([1, 2]), pickle.dumps({'r1': []}),
                pickle.dumps({'r1': {'a': 5}}), pickle.dumps({'r1': {'a': attrs_of(1), 'b': 'x'}}), pickle.dumps({'r2': {'a': attrs_of(3)}}),
                pickle.dumps({'r1': 7, 'r2': {'a': attrs_of(4)}}), b'\x80\x04]\x94.', pickle.dumps('r1')):
        jobs.append((b'', ('raw', raw), 'r1', {'a': 1, 'b': 1}, 'r2'))
    # a flipped length/memo opcode can make the unpickler ask for gigabytes: the address-space limit turns
    # that into the MemoryError the code under test catches (see DESIGN.md C20, limits)
    outs = pmap(byte_fault_trace, jobs, chunksize=100, mem_limit=1 << 30)
    lines = []
    skipped = 0
    classes = {}
    for job, o in zip(jobs, outs):
        if o.get('skip'):
            skipped += 1
            continue
        classes[o['class']['k']] = classes.get(o['class']['k'], 0) + 1
        chk.case([job[0].hex(), o['fault']], True,
                 {'fault': o['fault'], 'file_class': o['class']['k'], 'events': [e['op'] for e in o['ev']]} if o['fault'][0] == 'flip' and o['class']['k'] == 'dict' else None)
        if o.get('err'):
            chk.violation('bytes:raise:%s:%s' % (o['err'].split('(')[0], o['class']['k'] + ('' if o['class']['k'] != 'dict' else ':badsection' if any(not s['ok'] for s in norm(o['class']['d']).values()) else '')),
                          'fault %s on a saved file (class %s): %s' % (o['fault'], o['class'], o['err']), o)
            continue
        lines.append(o)
    chk.extra['byte_faults'] = {'files': nfile, 'cases': len(jobs), 'outside_abstraction': skipped, 'file_classes': classes}
    wd = tlc.make_workdir()
    try:
        tf = os.path.join(wd, 'trace.ndjson')
        with open(tf, 'w') as f:
            for o in lines:
                f.write(json.dumps({'ev': o['ev']}) + '\n')
        mod = mc_module('MC_PauxTrace', 'PauxTrace', 1000, labels='STRING')
        cfgt = CFG_TRACE if not os.environ.get('C20_ASBUILT') else CFG_TRACE.replace('INVARIANT NeverFails\n', '')
        rt = tlc.run('MC_PauxTrace', cfg_text=cfgt, extra_modules={'MC_PauxTrace.tla': mod}, workdir=wd, workers=1,
                     env={'TRACE_FILE': tf}, timeout=3400, heap='8g')
    finally:
        shutil.rmtree(wd, ignore_errors=True)
    chk.add_tlc(rt, 'trace-validation(%d byte-fault traces)' % len(lines))
    rej = [p for tag_, p in rt.prints if tag_ == 'REJ']
    if not rej:
        if not rt.violated:
            raise MachineryError('C20: trace validation printed no verdict:\n' + rt.out[-3000:])
        rej = [{}]      # TLC stopped at the invariant violation before the verdict was printed: reported below
    chk.traces += len(lines)
    if rt.violated:
        chk.violation('trace-invariant:' + ','.join(rt.violated),
                      'an invariant failed on a recorded execution: %s\n%s' % (rt.violated, rt.trace_text[:3000]))
    rejected = rej[-1] if isinstance(rej[-1], dict) else {}
    for tid_s, reached in rejected.items():
        o = lines[int(tid_s) - 1]
        k = int(reached) - 1
        e = o['ev'][k]
        chk.violation('trace:rejected:%s' % e['op'],
                      'fault %s (file class %s): event %d %s(%s) with file=%s restored=%s is not allowed by the specification (previous state %s)'
                      % (o['fault'], o['class'], k + 1, e['op'], e['r'], e['file'], e['res'], o['ev'][k - 1]['file'] if k else 'init'), o)

    pipeline(chk, tier)


def pipeline(chk, tier):
    """Full pipeline: render sibling documents -> .paux files; damage one; compile a document that \\ref's them."""
    from . import _pipeline_c20
    _pipeline_c20.run(chk, 'HTML5')
    if tier == 'thorough':
        _pipeline_c20.run(chk, 'XHTML')

"""C14 -- every internal link in the rendered output lands on an existing target.

spec -> code : Split.tla with references: TLC enumerates documents of sectioning units x split level x filename template x references
               (from any unit to a labelled unit or to the numbered equation of a unit), checks LinksLand (the file of the target url is
               produced and, for a fragment, the target is written there), NavIsAChain and NamesDistinct on the machine layer
               (Renderable.url, SectionUtils.links) and prints, per behaviour, the predicted href and shown number of every reference
               and the prev / next / up file of every file.  Each behaviour is rendered by the real pipeline: the reference's href and
               link text, the <link rel=prev|next|up> of every file and the file every footnote mark, index link and citation points
               into must equal the specification's.
closure      : on every rendered output (and on richer variants: index, bibliography, toc depth, toc-non-files, base-url, minimal theme,
               XHTML, theme extras copied) every href/src that is not external must name a produced file and an id in it, ids are unique
               per file, and (when the theme prints a table of contents) every produced page is reachable from the start page.
"""
import os
import random
import re
from html.parser import HTMLParser

from .. import tlc
from ..core import MachineryError, pmap
from . import c13

CFG = c13.CFG.replace('RefKinds = {"sec"}', 'RefKinds = {"sec", "eq"}')
BASE = 'http://example.org/base/'
BASE2 = 'http://example.org/base/manual'        # a path and no trailing slash


class Page(HTMLParser):
    def __init__(self, text):
        HTMLParser.__init__(self, convert_charrefs=True)
        self.ids = []
        self.names = []
        self.links = []      # (tag, attr, value, rel/class)
        self.feed(text)
        self.close()

    def handle_starttag(self, tag, attrs):
        d = dict(attrs)
        if d.get('id') is not None:
            self.ids.append(d['id'])
        if tag == 'a' and d.get('name') is not None:
            self.names.append(d['name'])
        for a in ('href', 'src', 'xlink:href'):
            if d.get(a) is not None:
                self.links.append((tag, a, d[a], d.get('rel') or d.get('class') or ''))

    handle_startendtag = handle_starttag


def concretise(beh, rich):
    refs = beh.get('refs') or []
    out = ['\\documentclass{article}\n']
    if rich:
        out.append('\\usepackage{makeidx}\\makeindex\n')
    out.append('\\begin{document}\n')

    def body(i, fn):
        s = 'bb%d text' % i
        if fn:
            s += '\\footnote{ff%d note}' % i
        if rich:
            s += ' word\\index{key%d} cc%d \\cite{bib1} done' % (i, i)
            if i == 0:
                # a display form whose initial differs from the sort key's, sorted between two entries of the same letter
                s += ' w\\index{identity} w\\index{include@\\#include} w\\index{indexx} w\\index{norm@$\\|x\\|$} w\\index{nab} w\\index{nzz}'
        for k, r in enumerate(refs):
            if r['from'] == i:
                s += ' see rr%d \\ref{%s} here' % (k + 1, c13.label(beh['nodes'], r['to']) if r['kind'] == 'sec' else 'eq%d' % r['to'])
        s += '\n\\begin{equation}\\label{eq%d} x=%d \\end{equation}\n' % (i, i)
        return s + '\n'
    out.append(body(0, beh['docfn']))
    for i, n in enumerate(beh['nodes'] or []):
        out.append('\\%s{%s}%s\n' % (['section', 'subsection', 'subsubsection'][n['lvl'] - 1], c13.TITLES[n['title']], '\\label{%s}' % c13.label(beh['nodes'], i + 1) if n['lab'] != 'none' else ''))
        out.append(body(i + 1, n['fn']))
    if rich:
        out.append('\\begin{thebibliography}{9}\n\\bibitem{bib1} Author, zz Title.\n\\end{thebibliography}\n\\printindex\n')
    out.append('\\end{document}\n')
    return ''.join(out)


def concretise_twins(beh):
    """every unit has the same title and the same body: sections that are equal as trees but distinct as nodes"""
    out = ['\\documentclass{article}\n\\begin{document}\nstart text\n\n']
    for n in beh['nodes'] or []:
        out.append('\\%s{Intro}\nsame text\n\n' % ['section', 'subsection', 'subsubsection'][n['lvl'] - 1])
    out.append('\\end{document}\n')
    return ''.join(out)


def split_href(href, base):
    if base and href.startswith(base.rstrip('/') + '/'):
        href = href[len(base.rstrip('/')) + 1:]
    f, _, frag = href.partition('#')
    return f, frag


def external(v):
    return re.match(r'^[a-zA-Z][a-zA-Z0-9+.-]*:', v) is not None or v.startswith('//')


def closure(files, outdir_listing, start, base, assets, has_toc=True):
    """generic link closure; returns list of (kind, message)"""
    bad = []
    pages = dict((fn, Page(t)) for fn, t in files.items())
    for fn, p in pages.items():
        seen = set()
        for i in p.ids:
            if i in seen:
                bad.append(('dup-id', 'id %r occurs twice in %s' % (i, fn)))
            seen.add(i)
    reach = set()
    todo = [start]
    for fn, p in pages.items():
        targets = set(p.ids) | set(p.names)
        for tag, attr, v, cls in p.links:
            if base and v.startswith(base.rstrip('/') + '/'):
                pass
            elif external(v):
                continue
            f, frag = split_href(v, base)
            if tag in ('script', 'img') or (tag == 'link' and 'stylesheet' in cls) or f.endswith(('.svg', '.css', '.js')) or '/' in f:
                if assets and f and f not in outdir_listing:
                    bad.append(('asset', '%s refers to %s which is not in the output directory' % (fn, f)))
                continue
            tf = f or fn
            if tf not in pages:
                bad.append(('dangling-file:' + (cls.split()[0] if cls else tag), '%s: <%s %s="%s"> names a file that was not produced (files: %s)' % (fn, tag, attr, v, sorted(pages))))
                continue
            if frag and frag not in (set(pages[tf].ids) | set(pages[tf].names)):
                bad.append(('dangling-fragment:' + (cls.split()[0] if cls else tag), '%s: <%s %s="%s"> -- no element with that id in %s' % (fn, tag, attr, v, tf)))
    # reachability through <a href>
    while todo:
        cur = todo.pop()
        if cur in reach or cur not in pages:
            continue
        reach.add(cur)
        for tag, attr, v, cls in pages[cur].links:
            if tag != 'a' or (external(v) and not (base and v.startswith(base))):
                continue
            f, frag = split_href(v, base)
            if f and f in pages and f not in reach:
                todo.append(f)
    if has_toc and set(pages) - reach:
        bad.append(('unreachable', 'pages %s cannot be reached from %s' % (sorted(set(pages) - reach), start)))
    return bad


def numstr(n):
    return '.'.join(str(x) for x in n)


def replay_one(job):
    beh, variant = job
    rich = variant not in ('pure', 'twins')
    src = concretise_twins(beh) if variant == 'twins' else concretise(beh, rich)
    ov = c13.overrides(beh)
    ov[('document', 'sec-num-depth')] = 3        # every unit of the grammar is numbered (deeper units have no number to show: `??`)
    renderer = 'HTML5'
    base = ''
    assets = False
    if variant == 'toc1':
        ov[('document', 'toc-depth')] = 1
    elif variant == 'toc0':
        ov[('document', 'toc-depth')] = 0
    elif variant == 'tocnonfiles':
        ov[('document', 'toc-non-files')] = True
    elif variant == 'baseurl':
        ov[('document', 'base-url')] = base = BASE
    elif variant == 'baseurl2':
        ov[('document', 'base-url')] = BASE2
        base = BASE2 + '/'
    elif variant == 'minimal':
        ov[('general', 'theme')] = 'minimal'
    elif variant == 'xhtml':
        renderer = 'XHTML'
    elif variant == 'extras':
        ov[('general', 'copy-theme-extras')] = True
        assets = True
    ctx = '(split-level %s, template %s, variant %s)\n%s' % (beh['split'], beh['tmpl'], variant, src)
    listing = []
    try:
        files = render(src, ov, renderer, listing)
    except Exception as ex:
        return [('raise', 'rendering raised %s: %s %s' % (type(ex).__name__, ex, ctx))]
    bad = []
    start = c13.name_of(beh['files'][0]['name']) + '.html'
    if start not in files:
        return [('start', 'no start page %s among %s %s' % (start, sorted(files), ctx))]
    for kind, msg in closure(files, set(listing), start, base, assets, has_toc=variant not in ('minimal', 'toc0')):
        bad.append((kind, msg + ' ' + ctx))
    # predictions of the specification
    home = [c13.name_of(h) + '.html' for h in beh['homes']]
    alltext = dict((fn, t) for fn, t in files.items())
    for k, r in enumerate(beh['refs'] or []):
        u = beh['urls'][k]
        want = c13.name_of(u['file']) + '.html'
        if u['frag']:
            want += '#' + (c13.label(beh['nodes'], u['id']) if r['kind'] == 'sec' else 'eq%d' % u['id'])
        want = base + want if base else want
        shown = numstr(beh['shown'][k])
        src_file = home[r['from']]
        m = re.search(r'rr%d\s*<a href="([^"]*)"[^>]*>\s*([^<]*?)\s*</a>' % (k + 1), alltext.get(src_file, ''))
        if not m:
            bad.append(('ref-missing', 'reference rr%d is not a link in %s %s' % (k + 1, src_file, ctx)))
            continue
        if m.group(1) != want:
            bad.append(('ref-href:' + r['kind'], 'reference rr%d links to %s, specification %s %s' % (k + 1, m.group(1), want, ctx)))
        if m.group(2) != shown:
            bad.append(('ref-number:' + r['kind'], 'reference rr%d shows %r, the number of its target is %s %s' % (k + 1, m.group(2), shown, ctx)))
    if variant in ('pure', 'twins', 'baseurl', 'baseurl2', 'toc1', 'toc0', 'tocnonfiles', 'extras'):
        nfiles = len(beh['files'])
        for j, f in enumerate(beh['files']):
            fn = c13.name_of(f['name']) + '.html'
            if fn not in files:
                bad.append(('file-missing', 'the unit %s should be written to %s; files: %s %s' % (f['node'], fn, sorted(files), ctx)))
                continue
            p = Page(files[fn])
            rels = dict((cls, v) for tag, attr, v, cls in p.links if tag == 'link' and cls in ('next', 'prev', 'up'))
            for rel in ('prev', 'next', 'up'):
                w = f['nav'][rel]
                if rich and rel == 'next' and j == nfiles - 1:
                    continue        # the bibliography / index pages follow
                w = (base + c13.name_of(w) + '.html') if w else None
                if rels.get(rel) != w:
                    bad.append(('nav:' + rel, '%s: rel=%s is %s, specification %s %s' % (fn, rel, rels.get(rel), w, ctx)))
    # the table of contents printed on every page (default theme): entries and order as the specification says
    if renderer == 'HTML5' and variant in ('pure', 'rich', 'toc1', 'toc0', 'tocnonfiles', 'baseurl', 'baseurl2', 'extras'):
        depth = {'toc1': 1, 'toc0': 0}.get(variant, 3)
        t = beh['tocs'][depth]
        units = t['all'] if variant == 'tocnonfiles' else t['files']
        want = []
        for i in (units or []):
            u = beh['allurls'][i - 1]
            w = c13.name_of(u['file']) + '.html'
            if u['frag']:
                w += '#' + (c13.label(beh['nodes'], i) if beh['nodes'][i - 1]['lab'] != 'none' else '*')
            want.append(base + w if base else w)
        for fn, text in files.items():
            m = re.search(r'<nav class="toc">(.*?)</nav>', text, re.S)
            got = re.findall(r'<a href="([^"]*)"', m.group(1)) if m else []
            gotn = [re.sub(r'#a\d{10}$', '#*', g) for g in got]
            extra = gotn[len(want):]
            if gotn[:len(want)] != want or len(extra) > (1 if rich else 0):
                bad.append(('toc', '%s: the table of contents lists %s, specification %s%s %s' % (fn, gotn, want, ' (+ the index page)' if rich else '', ctx)))
                break
    # footnote marks point at the text of their own footnote
    for fn, t in files.items():
        notes = dict(re.findall(r'<li id="([^"]+)">\s*(?:<p>)?\s*ff(\d+) note', t))
        for m in re.finditer(r'bb(\d+) text\s*<a class="footnote" href="#([^"]+)"', t):
            if notes.get(m.group(2)) != m.group(1):
                bad.append(('footnote-mark', '%s: the footnote mark after bb%s points at %s which holds footnote %s %s' % (fn, m.group(1), m.group(2), notes.get(m.group(2)), ctx)))
    if rich and renderer == 'HTML5' and variant != 'minimal':
        # index links and citations point into the file that holds the unit
        for fn, t in files.items():
            for m in re.finditer(r'<span class="index-item">key(\d+)</span>,\s*<a href="([^"]*)"', t):
                f, frag = split_href(m.group(2), base)
                if f != home[int(m.group(1))]:
                    bad.append(('index-home', 'the index sends key%s to %s; unit %s is written to %s %s' % (m.group(1), f, m.group(1), home[int(m.group(1))], ctx)))
            for m in re.finditer(r'cc(\d+)\s*(?:<span[^>]*>)?\s*\[?\s*<a href="([^"]*)"', t):
                f, frag = split_href(m.group(2), base)
                if f not in files or 'zz Title' not in files[f]:
                    bad.append(('cite-home', 'the citation in unit %s links to %s which does not hold the bibliography entry %s' % (m.group(1), m.group(2), ctx)))
    return bad or [('ok', '')]


def render(src, ov, renderer, listing):
    import shutil
    import tempfile
    from .. import render as R
    d = tempfile.mkdtemp(prefix='vlink')
    try:
        with open(os.path.join(d, 'doc.tex'), 'w') as f:
            f.write(src)
        import logging
        import sys
        logging.disable(logging.CRITICAL)
        err = sys.stderr
        sys.stderr = open(os.devnull, 'w')
        try:
            R.compile_file('doc.tex', d, renderer=renderer, overrides=ov)
        finally:
            sys.stderr = err
        outdir = os.path.join(d, 'doc')
        files = {}
        for root, dirs, fns in os.walk(outdir):
            for fn in fns:
                rel = os.path.relpath(os.path.join(root, fn), outdir)
                listing.append(rel)
                if root == outdir and fn.endswith('.html'):
                    files[fn] = open(os.path.join(root, fn), encoding='utf-8').read()
        return files
    finally:
        shutil.rmtree(d, ignore_errors=True)


VARIANTS = ['rich', 'toc1', 'toc0', 'tocnonfiles', 'baseurl', 'baseurl2', 'minimal', 'xhtml']


def run(chk):
    tier, seed = chk.tier, chk.seed
    chk.rule = ('every document of up to MaxNodes units x split level x template x up to MaxRefs references; non-trivial = a reference whose '
                'source and target are written to different files, or a fragment link; distinct by (units, split, template, references, variant)')
    chk.assumptions = ['sec-num-depth is 3 so that every unit a reference can name has a number (a reference to an unnumbered unit prints ?? without a link)',
                       'documents are rendered in an empty directory (no .paux of an earlier run or of another document)',
                       'asset links (css, js, svg sprites) are checked only in the variant that copies the theme extras']
    behs = []
    noemit = CFG.replace('INVARIANT Emit\n', '')
    LK = '"none", "own", "index"'
    # design check at the larger bounds without printing, behaviours printed at the smaller ones
    for mn, mr, lk in ([(3, 0, LK)] if tier == 'quick' else [(3, 1, LK), (2, 2, LK), (4, 0, '"none", "own"')]):
        res = tlc.run('Split', cfg_text=noemit % (mn, '"default", "title", "single"', mr, lk), timeout=3400, heap='12g', want_beh=False)
        chk.add_tlc(res, 'links(MaxNodes=%d,refs<=%d)' % (mn, mr))
        if not res.ok:
            chk.violation('design:' + ','.join(res.violated or ['error']),
                          'TLC found a counterexample in the Split design: %s\n%s' % (res.violated, res.trace_text[:2500]))
    for mn, mr in ([(2, 1)] if tier == 'quick' else [(2, 1), (3, 0)]):
        res = tlc.run('Split', cfg_text=CFG % (mn, '"default", "title", "single"', mr, LK), timeout=3400, heap='12g')
        chk.add_tlc(res, 'links-emit(MaxNodes=%d,refs<=%d)' % (mn, mr))
        behs.extend(res.beh)
    # longer documents with several references by simulation
    nsim, dsim = (400, 9) if tier == 'quick' else (6000, 12)
    rs = tlc.run('Split', cfg_text=CFG % (5, '"default", "title", "single"', 3, '"none", "own", "index", "sect1"'), simulate=nsim, depth=dsim, seed=seed + 5, timeout=3400, heap='8g', workers=4)
    chk.add_tlc(rs, 'simulate(num=%d,depth=%d,MaxNodes=5,refs<=3)' % (nsim, dsim))
    if rs.violated:
        chk.violation('design:sim:' + ','.join(rs.violated), 'TLC simulation found a counterexample: %s\n%s' % (rs.violated, rs.trace_text[:2500]))
    if not behs:
        raise MachineryError('C14: no behaviours emitted')
    rnd = random.Random(seed)
    withref = [b for b in behs if b['refs']]
    noref = [b for b in behs if not b['refs']]
    rnd.shuffle(withref)
    rnd.shuffle(noref)
    n1, n2, n3 = (3500, 1000, 150) if tier == 'quick' else (25000, 8000, 800)
    jobs = [(b, 'pure') for b in withref[:n1]] + [(b, 'pure') for b in noref[:n2]]
    seen = set()
    for b in rs.beh:
        k = repr((b['nodes'], b['refs'], b['split'], b['tmpl']))
        if k not in seen and len(b['nodes']) >= 3:
            seen.add(k)
            jobs.append((b, 'pure'))
            jobs.append((b, 'rich'))
    pool = withref[n1:] or withref
    for v in VARIANTS:
        for b in pool[:n3]:
            jobs.append((b, v))
        pool = pool[n3:] or pool
    for b in (withref[:12] if tier == 'quick' else withref[:150]):
        jobs.append((b, 'extras'))
    # units that are equal as trees (same title, same body, no label) but distinct as nodes: navigation must tell them apart
    rtw = tlc.run('Split', cfg_text=CFG % (3 if tier == 'quick' else 4, '"default", "plain"', 0, '"none"'), timeout=3400, heap='8g')
    chk.add_tlc(rtw, 'links-emit(unlabelled units)')
    behs_tw = rtw.beh
    tw = [b for b in behs_tw if len(b['nodes']) >= 3 and not b['refs'] and not b['docfn'] and b['tmpl'] in ('default', 'plain')
          and all(n['lab'] == 'none' and not n['fn'] and n['title'] == 'Intro' for n in b['nodes'])]
    tw += [b for b in rs.beh if len(b['nodes']) >= 3 and not b['refs'] and not b['docfn'] and b['tmpl'] in ('default', 'plain')
           and all(n['lab'] == 'none' and not n['fn'] and n['title'] == 'Intro' for n in b['nodes'])]
    for b in tw[:300 if tier == 'quick' else 3000]:
        jobs.append((b, 'twins'))
    results = pmap(replay_one, jobs, chunksize=10)
    for (beh, variant), res in zip(jobs, results):
        key = [beh['nodes'], beh['docfn'], beh['split'], beh['tmpl'], beh['refs'], variant]
        home = beh['homes']
        nt = any(home[r['from']] != beh['urls'][k]['file'] or beh['urls'][k]['frag'] for k, r in enumerate(beh['refs'] or [])) or len(beh['files']) > 1
        chk.case(key, nt, {'document': concretise(beh, variant != 'pure'), 'split': beh['split'], 'template': beh['tmpl'], 'variant': variant,
                           'hrefs': [[c13.name_of(u['file']), u['frag'], u['id']] for u in beh['urls']]}
                 if beh['refs'] and len(beh['files']) >= 2 and len(chk.samples) < 4 else None)
        chk.traces += 1
        for kind, msg in res:
            if kind != 'ok':
                chk.violation('replay:%s:%s' % (kind, variant), msg, key)
    chk.extra['renderings'] = len(jobs)
    chk.exhaustive = False

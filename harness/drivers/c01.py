"""C01 -- tokenization follows TeX's lexical rules for every input and catcode table.

spec -> code : TLC enumerates all strings up to a length over an adversarial alphabet x a family of category tables
               (default, @-letter, verbatim, LF-active, seeded random permutations) x mid-stream \\catcode changes,
               checks the Tokenizer machine against the rule layer Lex (TeXbook ch. 8 + named deviations) and prints
               every behaviour; each is replayed on the real plasTeX.Tokenizer (tables set with Context.catcode,
               scheduled changes applied between pulled tokens) comparing the token list (category, text) and the
               final tokenizer state.
code -> spec : seeded random longer strings (<= 40 characters, larger alphabet, ^^-sequences, partial end markers)
               with random tables and schedules are tokenized by the real code; TLC re-executes the machine on
               each (TokenizerTrace.tla) and must reproduce every recorded token and the final state.
"""
import json
import os
import random
import shutil

from .. import tlc
from ..core import MachineryError, pmap

BASE = ['\\', '{', '}', '$', '&', '#', '^', '_', '~', '%', ' ', '\t', '\n', '\r', '\x00', 'a', 'M', '@', '1', '\xe9', 'J', 'q', '!']
SUB = ['\\', '{', '%', '^', ' ', '\n', 'a', 'M', '@', '~']


def sym(ch):
    return 'LF' if ch == '\n' else 'c%d' % ord(ch)


def unsym(s):
    return '\n' if s == 'LF' else chr(int(s[1:]))


def decode(ch):
    n = ord(ch)
    return chr(n - 64) if n >= 64 else chr(n + 64)


def closure(chars):
    out = list(chars)
    for c in chars:
        d = decode(c)
        if d not in out:
            out.append(d)
    return out


def make_context(table_ops):
    """table_ops: list of ('verbatim',) or (char, code) applied to a fresh Context."""
    from plasTeX.Context import Context
    c = Context()
    # the table in force is all that matters, not how it was reached: send two characters through other categories and back
    # ('1' via invalid to other, 'q' via invalid and active to letter) before the table is set up
    c.catcode('1', 15)
    c.catcode('1', 12)
    c.catcode('q', 15)
    c.catcode('q', 13)
    c.catcode('q', 11)
    for op in table_ops:
        if op[0] == 'verbatim':
            c.setVerbatimCatcodes()
        else:
            if op[1] != 15 and (ord(op[0]) + op[1]) % 2:
                c.catcode(op[0], 15)        # a detour on the way to the final category
            c.catcode(op[0], op[1])
    return c


TABLE_MISMATCH = []


def table_family(tier, seed, allchars):
    fam = [('default', []), ('atletter', [('@', 11)]), ('verbatim', [('verbatim',)]), ('lfactive', [('\n', 13)])]
    rnd = random.Random(seed)
    nrand = 2 if tier == 'quick' else 6
    for i in range(nrand):
        ops = []
        pool = [c for c in BASE if c not in ('\n',)]
        for c in rnd.sample(pool, 6):
            k = rnd.choice([0, 1, 2, 3, 4, 6, 7, 8, 9, 10, 11, 12, 13, 14, 15])
            if decode(c) == '\n' or c == decode('\n'):
                k = rnd.choice([11, 12, 10])
            ops.append((c, k))
        fam.append(('rand%d' % i, ops))
    out = []
    from plasTeX.Context import Context
    for name, ops in fam:
        ctx = make_context(ops)
        # the table the specification is given: the default table of a fresh context with the assignments applied by the rule
        # "the last assignment to a character wins" -- NOT read back from the context under test, whose bookkeeping is part of
        # what is checked (a mismatch is reported by run() as a violation)
        if ops and ops[0][0] == 'verbatim':
            fresh = Context()
            fresh.setVerbatimCatcodes()
            rest = ops[1:]
        else:
            fresh = Context()
            rest = ops
        cat = dict((sym(c), int(fresh.whichCode(c))) for c in allchars)
        for c, k in rest:
            cat[sym(c)] = k
        real = dict((sym(c), int(ctx.whichCode(c))) for c in allchars)
        if real != cat:
            TABLE_MISMATCH.append((name, ops, dict((k, (real[k], cat[k])) for k in cat if real[k] != cat[k])))
        if cat['LF'] in (9, 15) or cat[sym(decode('\n'))] in (9, 15):
            raise MachineryError('table family violates the LF assumption')
        # category 5 only for the line feed (NF-LEX x3)
        if any(k == 5 and s != 'LF' for s, k in cat.items()):
            continue
        out.append({'id': name, 'ops': ops, 'cat': cat})
    return out


def mc_module(name, base, chars, tables, allchars, maxlen, maxset, choices, variant):
    skip, eof = variant
    dec = '(' + ' @@ '.join('"%s" :> "%s"' % (sym(c), sym(decode(c))) for c in allchars if decode(c) in allchars) + ')'
    tbl = '{' + ',\n  '.join('[id |-> "%s", cat |-> %s]' % (t['id'], '(' + ' @@ '.join('"%s" :> %d' % kv for kv in t['cat'].items()) + ')')
                             for t in tables) + '}'
    import string
    return '''---- MODULE %s ----
EXTENDS %s
MCChars == %s
MCTables == %s
MCDecode == %s
MCAscii == %s
MCMaxLen == %d
MCMaxSetCat == %d
MCChoices == %s
MCSkip == %s
MCEof == %s
====
''' % (name, base, tlc.to_tla(set(sym(c) for c in chars)), tbl, dec,
       tlc.to_tla(set(sym(c) for c in allchars if c in string.ascii_letters)), maxlen, maxset,
       '{' + ', '.join('<<"%s", %d>>' % (sym(c), k) for c, k in choices) + '}',
       'TRUE' if skip else 'FALSE', 'TRUE' if eof else 'FALSE')


CFG_CONST = '''CONSTANTS
  Chars <- MCChars
  Tables <- MCTables
  Decode <- MCDecode
  AsciiLetter <- MCAscii
  MaxLen <- MCMaxLen
  MaxSetCat <- MCMaxSetCat
  SetCatChoices <- MCChoices
  SkipByCatcode <- MCSkip
  SuperEofSafe <- MCEof
'''
CFG_MC = CFG_CONST + '''INIT Init
NEXT Next
CHECK_DEADLOCK FALSE
INVARIANT Refines
INVARIANT CatOfClass
INVARIANT NoTwoPars
INVARIANT NeverStuck
INVARIANT EmitDone
'''
CFG_LIVE = CFG_CONST + 'SPECIFICATION Spec\nPROPERTY Terminates\nCHECK_DEADLOCK FALSE\n'
CFG_TRACE = CFG_CONST + '''INIT TraceInit
NEXT TraceNext
CHECK_DEADLOCK FALSE
INVARIANT CatOfClass
INVARIANT NoTwoPars
INVARIANT TraceNeverStuck
INVARIANT PrefixOfRecorded
INVARIANT FinalMatches
'''


def variant():
    if os.environ.get('C01_ASBUILT'):
        return (False, False)
    return (True, True)


# ---------------------------------------------------------------------------
def tok_proj(t):
    from plasTeX.Tokenizer import EscapeSequence, Space
    cc = int(t.catcode)
    s = str(t)
    if isinstance(t, EscapeSequence):
        if s == 'par':
            return {'cc': 0, 'tx': ['PAR']}
        if s.startswith('active::'):
            return {'cc': 0, 'tx': ['ACT', sym(s[len('active::'):])]}
        return {'cc': 0, 'tx': [sym(c) for c in s]}
    if cc == 10:
        return {'cc': 10, 'tx': ['SP']}
    return {'cc': cc, 'tx': [sym(c) for c in s]}


def run_real(text, table_ops, sets):
    """Tokenize with the real code.  sets: list of (ntokens_before, char, code)."""
    from plasTeX.Tokenizer import Tokenizer
    ctx = make_context(table_ops)
    tk = Tokenizer(text, ctx)
    out = []
    sets = list(sets)
    exc = None
    try:
        it = iter(tk)
        while True:
            while sets and sets[0][0] == len(out):
                _, c, k = sets.pop(0)
                ctx.catcode(c, k)
            try:
                t = next(it)
            except StopIteration:
                break
            out.append(tok_proj(t))
            if len(out) > 10 * len(text) + 20:
                exc = 'does not terminate'
                break
    except Exception as ex:
        exc = '%s: %s' % (type(ex).__name__, ex)
    st = {Tokenizer.STATE_N: 'N', Tokenizer.STATE_M: 'M', Tokenizer.STATE_S: 'S'}[tk.state]
    return out, st, exc, len(sets)


_TABLES = {}


def replay_one(beh):
    t = _TABLES[beh['t']]
    text = ''.join(unsym(s) for s in beh['inp'])
    sets = [(e[0], unsym(e[1]), e[2]) for e in beh['sets']]
    out, st, exc, left = run_real(text, t['ops'], sets)
    if exc:
        return 'raise', 'tokenizing %r under table %s with changes %s raised %s' % (text, t['id'], sets, exc)
    if out != beh['out']:
        k = next((i for i in range(min(len(out), len(beh['out']))) if out[i] != beh['out'][i]), min(len(out), len(beh['out'])))
        return 'tokens', ('input %r table %s changes %s: token %d is %s, specification %s (all: %s vs %s)'
                          % (text, t['id'], sets, k + 1, out[k] if k < len(out) else 'missing', beh['out'][k] if k < len(beh['out']) else 'none',
                             show(out), show(beh['out'])))
    if st != beh['st']:
        return 'state', 'input %r table %s: final state %s, specification %s' % (text, t['id'], st, beh['st'])
    return 'ok', ''


def show(toks):
    return ' '.join('%d:%s' % (t['cc'], ''.join(x if x in ('PAR', 'SP', 'ACT') else repr(unsym(x))[1:-1] for x in t['tx'])) for t in toks)


def classify(text):
    feats = []
    if '\\' in text:
        feats.append('esc')
    if '^^' in text:
        feats.append('sup2')
    if '\n' in text:
        feats.append('eol')
    if '%' in text:
        feats.append('comment')
    return '+'.join(feats) or 'plain'


def run(chk):
    global _TABLES
    tier, seed = chk.tier, chk.seed
    var = variant()
    chk.rule = ('inputs: every string up to a length over the alphabet; non-trivial = contains an escape, a line end, a run of '
                'blanks, a comment character or a ^^ pair; distinct by (input, table, schedule)')
    chk.assumptions = ['NF-LEX: hex ^^ab notation is outside the model; category 5 is held only by the line feed; the line feed '
                       'and its ^^ image are never ignored/invalid; \\let aliases are not installed (D4 is exercised by C04)',
                       'category tables of the specification are read off the real Context.whichCode after applying the same '
                       'catcode() calls, so the tables are the real ones by construction']
    allc = closure(BASE)
    tables = table_family(tier, seed, allc)
    for name, ops, diff in TABLE_MISMATCH:
        chk.violation('table:history', 'after the category assignments %s (each character possibly sent through other categories first) the context '
                      'classifies %s (real, expected by "the last assignment wins")' % (ops, diff), {'table': name, 'ops': ops})
    _TABLES = dict((t['id'], t) for t in tables)
    choices = [('@', 11), ('%', 12), ('~', 12), ('\\', 12), ('a', 13), ('^', 12), (' ', 12), ('\n', 12)]

    runs = [('full', BASE, tables, 3 if tier == 'quick' else 4, 0, []),
            ('sub', SUB, [tables[0], tables[1], tables[3]] if tier == 'quick' else tables[:4], 5, 0, []),
            ('setcat', SUB, tables[:2], 3 if tier == 'quick' else 4, 1 if tier == 'quick' else 2, choices)]
    if tier != 'quick':
        # length 6 over 10 characters is more than TLC's largest constructible set (10^6): eight characters instead
        runs.append(('sub6', ['\\', '{', '%', '^', ' ', '\n', 'a', '~'], tables[:2], 6, 0, []))
    nbeh = 0
    for label, chars, tbls, maxlen, maxset, ch in runs:
        mod = mc_module('MC_Tokenizer', 'Tokenizer', chars, tbls, allc, maxlen, maxset, ch, var)
        res = tlc.run('MC_Tokenizer', cfg_text=CFG_MC, extra_modules={'MC_Tokenizer.tla': mod}, coverage=(label == 'full'),
                      timeout=3400, heap='12g')
        chk.add_tlc(res, '%s(len<=%d,tables=%d,setcat<=%d)' % (label, maxlen, len(tbls), maxset))
        if not res.ok:
            chk.violation('design:%s:%s' % (label, ','.join(res.violated or ['error'])),
                          'TLC found a counterexample in the Tokenizer design (%s): %s\n%s' % (label, res.violated, res.trace_text[:3000]))
        if label == 'full' and res.ok:
            must = ['LetterOrOther', 'SpaceSkipped', 'SpaceEmitted', 'EolInS', 'EolInM', 'EolInN_Par', 'EolInN_ParSuppressed',
                    'EscapeWord', 'EscapeSymbol', 'EscapeThenEolYieldsSpace', 'EscapeAtEnd', 'Comment', 'Active', 'OtherCategory', 'Finish']
            missing = [a for a in must if res.coverage.get(a, (0, 0))[1] == 0]
            if missing:
                raise MachineryError('C01: actions never taken: %s' % missing)
        if not res.beh:
            raise MachineryError('C01: no behaviours emitted (%s)' % label)
        results = pmap(replay_one, res.beh, chunksize=500)
        for beh, (kind, msg) in zip(res.beh, results):
            text = ''.join(unsym(s) for s in beh['inp'])
            nt = any(x in text for x in ('\\', '\n', '  ', '%', '^^', '\t '))
            nbeh += 1
            chk.case([beh['inp'], beh['t'], beh['sets']], nt,
                     {'input': text, 'table': beh['t'], 'changes': beh['sets'], 'tokens': show(beh['out'])} if nt and len(text) >= 3 and nbeh % 977 == 0 else None)
            chk.traces += 1
            if kind != 'ok':
                chk.violation('replay:%s:%s' % (kind, classify(text)), msg, beh)
    chk.exhaustive = True
    chk.extra['bounds'] = [{'run': r[0], 'alphabet': len(r[1]), 'tables': [t['id'] for t in r[2]], 'max_len': r[3], 'max_setcat': r[4]} for r in runs]

    # liveness on a small instance
    mod = mc_module('MC_Tokenizer', 'Tokenizer', SUB, tables[:2], allc, 3, 0, [], var)
    resl = tlc.run('MC_Tokenizer', cfg_text=CFG_LIVE, extra_modules={'MC_Tokenizer.tla': mod}, timeout=3400)
    chk.add_tlc(resl, 'liveness(sub,len<=3)')
    if not resl.ok:
        chk.violation('design:Terminates', 'tokenizing does not terminate: %s\n%s' % (resl.violated, resl.trace_text[:2000]))

    # code -> spec
    rnd = random.Random(seed + 17)
    big = BASE + ['b', 'e', 'n', 'd', 'v', 'Z', '0', '9', '"', "'", '-', '`', '<', '>', '[', ']', '€', '\x7f', '\x0c', '=']
    allbig = closure(big)
    n = 300 if tier == 'quick' else 4000
    jobs = []
    for i in range(n):
        L = rnd.randint(1, 40)
        parts = []
        while sum(len(p) for p in parts) < L:
            r = rnd.random()
            if r < 0.12:
                parts.append('^^' + rnd.choice(big))
            elif r < 0.18:
                parts.append(rnd.choice(['\\end{v', '\\end', '\\ ', '\\\n', '%\n', '\n\n', '  ', '\\\\', '\\a@b ', '^^M', '^^']))
            else:
                parts.append(rnd.choice(big if rnd.random() < 0.5 else BASE))
        text = ''.join(parts)[:45]
        ops = []
        if rnd.random() < 0.2:
            ops.append(('verbatim',))
        for _ in range(rnd.choice([0, 0, 1, 2, 5])):
            c = rnd.choice([x for x in big if x != '\n'])
            k = rnd.choice([0, 1, 2, 3, 4, 6, 7, 8, 9, 10, 11, 12, 13, 14, 15])
            if decode(c) == '\n' or c == decode('\n'):
                k = 11
            ops.append((c, k))
        ntok_guess = max(1, len(text) // 2)
        sets = sorted([(rnd.randint(0, ntok_guess), rnd.choice(['@', '%', '~', '\\', 'a', '^', ' ', 'e', '{']), rnd.choice([11, 12, 13, 14, 0, 10, 7]))
                       for _ in range(rnd.choice([0, 0, 1, 2, 3]))], key=lambda e: e[0])
        jobs.append((text, ops, sets))
    outs = pmap(_trace_job, [(j, allbig) for j in jobs], chunksize=50)
    lines = []
    for (text, ops, sets), o in zip(jobs, outs):
        chk.case(['trace', text, repr(ops), repr(sets)], True)
        if o.get('exc'):
            chk.violation('trace:raise:%s' % classify(text), 'tokenizing %r (table ops %s, changes %s) raised %s' % (text, ops, sets, o['exc']), o)
            continue
        if o.get('skip'):
            continue
        lines.append(o)
    wd = tlc.make_workdir()
    try:
        tf = os.path.join(wd, 'trace.ndjson')
        with open(tf, 'w') as f:
            for o in lines:
                f.write(json.dumps({'inp': o['inp'], 'cat': o['cat'], 'sets': o['sets'], 'out': o['out'], 'st': o['st']}) + '\n')
        mod = mc_module('MC_TokenizerTrace', 'TokenizerTrace', [], [], allbig, 0, 0, [], var)
        rt = tlc.run('MC_TokenizerTrace', cfg_text=CFG_TRACE, extra_modules={'MC_TokenizerTrace.tla': mod}, workdir=wd,
                     env={'TRACE_FILE': tf}, timeout=3400, heap='8g')
    finally:
        shutil.rmtree(wd, ignore_errors=True)
    chk.add_tlc(rt, 'trace-validation(%d runs)' % len(lines))
    chk.traces += len(lines)
    if rt.violated or rt.deadlock:
        m = None
        import re
        mm = re.search(r'/\\ tid = (\d+)', rt.out[rt.out.find('Error:'):] if 'Error:' in rt.out else '')
        o = lines[int(mm.group(1)) - 1] if mm else None
        chk.violation('trace:%s:%s' % (','.join(rt.violated) or 'deadlock', classify(o['text']) if o else ''),
                      'recorded tokenization disagrees with the specification (%s): input %r table ops %s changes %s recorded tokens %s final state %s'
                      % (rt.violated, o and o['text'], o and o['ops'], o and o['sets'], o and show(o['out']), o and o['st']), o)


def _trace_job(args):
    (text, ops, sets), allbig = args
    ctx = make_context(ops)
    cat = dict((sym(c), int(ctx.whichCode(c))) for c in allbig)
    # assumptions of the model on tables (see DESIGN.md NF-LEX)
    live = dict(cat)
    for _, c, k in sets:
        live[sym(c)] = k
    for tab in (cat, live):
        if any(k == 5 and s != 'LF' for s, k in tab.items()) or tab['LF'] in (9, 15) or tab[sym(decode('\n'))] in (9, 15):
            return {'skip': True}
    if any(c not in allbig or decode(c) not in allbig for c in text):
        return {'skip': True}
    out, st, exc, left = run_real(text, ops, sets)
    if exc:
        return {'exc': exc, 'text': text, 'ops': ops, 'sets': sets}
    # changes scheduled after the last token are never applied by the driver: drop them from the schedule
    used = sets[:len(sets) - left]
    return {'inp': [sym(c) for c in text], 'cat': cat, 'sets': [[a, sym(c), k] for a, c, k in used], 'out': out, 'st': st,
            'text': text, 'ops': ops}

"""C11 -- verbatim text and mathematics pass through character-for-character.

spec -> code : Verbatim.tla: TLC enumerates every body built from up to MaxChunks chunks of an adversarial catalogue (backslashes, braces,
               %, ligature-like sequences, runs of blanks, line breaks, ^^-notation, every partial end marker) not containing the complete
               end marker, and checks the collecting machine against the rule (BodyExact, RestUntouched).  Every body is placed in a
               verbatim environment followed by ordinary text and parsed: the environment's text must be the body exactly, the text
               after it must be processed normally (macro executed, dash substituted), the context stack balanced.  \\verb: every
               delimiter of a catalogue x bodies, starred and not.
               MathSource.tla: TLC enumerates every formula of the grammar up to a depth with its written and expected (user macros
               expanded) token lists; each is parsed in $..$, \\(..\\), \\[..\\], equation and inside \\textbf{..}; node.source is
               re-tokenized with the real Tokenizer and compared token for token (blanks aside) with the expected list.
"""
import os
import random
import re

from .. import tlc
from ..core import MachineryError, pmap

ENDENV = list('\\end{verbatim}')
ENDCMD = list('\\endverbatim')
CHUNKS = ['\\', '{', '}', '%', ' ', '  ', '\n', 'x', '``', '--', "''", '^^M', '~', '\\end', '\\end{', '\\end{verb', '\\end{verbatim',
          'end{verbatim}', '\\endverbatim', '$&#_', '\t', '\\begin{verbatim}']
CHUNKS_QUICK = ['\\', '}', '%', '  ', '\n', 'x', '--', '^^M', '\\end{verb', '\\end{verbatim', 'end{verbatim}', '\\endverbatim', '$&#_~']


def seq(s):
    return '<<' + ', '.join('"%s"' % {'\\': '\\\\', '"': '\\"', '\n': 'LF', '\t': 'TAB'}.get(c, c) for c in s) + '>>'


def unsym(toks):
    return ''.join({'LF': '\n', 'TAB': '\t'}.get(t, t) for t in toks)


def mc_verbatim(chunks):
    return '''---- MODULE MC_Verbatim ----
EXTENDS Verbatim
MCChunks == {%s}
MCEndEnv == %s
MCEndCmd == %s
====
''' % (', '.join(seq(c) for c in chunks), seq(ENDENV), seq(ENDCMD))


CFG_VERB = '''CONSTANTS
  Chunks <- MCChunks
  MaxChunks = %d
  EndEnv <- MCEndEnv
  EndCmd <- MCEndCmd
  CmdFormOnlyForCommand = %s
INIT Init
NEXT Next
CHECK_DEADLOCK FALSE
INVARIANT BodyExact
INVARIANT RestUntouched
INVARIANT Ends
INVARIANT Emit
'''
CFG_MATH = '''CONSTANTS
  Depth = %d
INIT Init
NEXT Next
CHECK_DEADLOCK FALSE
INVARIANT NoUserMacroLeft
INVARIANT Emit
'''


def replay_verbatim(beh):
    from plasTeX.TeX import TeX
    from plasTeX import TeXDocument
    body = unsym(beh['body'])
    src = '\\documentclass{article}\\begin{document}\\def\\vafter{AFTER}P\\begin{verbatim}' + body + '\\end{verbatim}\\vafter{} a--b Q\\end{document}'
    d = TeXDocument()
    t = TeX(d)
    t.input(src)
    try:
        t.parse()
    except Exception as ex:
        return 'raise', 'verbatim body %r raised %s: %s' % (body, type(ex).__name__, ex)
    vs = d.getElementsByTagName('verbatim')
    if len(vs) != 1:
        return 'shape', 'verbatim body %r: %d verbatim nodes' % (body, len(vs))
    got = str(vs[0].textContent)
    if got != body:
        return 'body', 'verbatim body %r was reproduced as %r' % (body, got)
    text = str(d.textContent)
    tail = text[text.index(got) + len(got):] if got in text else text
    if 'AFTER' not in tail or 'a–b' not in tail or not tail.rstrip().endswith('Q'):
        return 'after', 'text after the verbatim environment with body %r was processed as %r (expected the macro expansion AFTER and an en dash)' % (body, tail)
    if len(d.context.contexts) != 1:
        return 'depth', 'context stack at depth %d after a verbatim environment with body %r' % (len(d.context.contexts), body)
    return 'ok', ''


DELIMS = list('|!+/"\'~#$&^_=:;,.?@-<>()[]1`%')
VERB_BODIES = ['x', 'a b', 'a  b', '\\y{%z', '--``', '^^M', '}{', '\\verb', ' lead', 'trail ', '&$#_~']


def replay_verb(args):
    delim, body, star = args
    if delim in body:
        return 'skip', ''
    from plasTeX.TeX import TeX
    from plasTeX import TeXDocument
    import signal
    src = '\\documentclass{article}\\begin{document}\\def\\vafter{AFTER}P\\verb%s%s%s%s\\vafter{} a--b Q\\end{document}' % ('*' if star else '', delim, body, delim)
    d = TeXDocument()
    t = TeX(d)
    t.input(src)

    def onalarm(s, f):
        raise TimeoutError()
    signal.signal(signal.SIGALRM, onalarm)
    signal.alarm(10)
    try:
        t.parse()
    except BaseException as ex:
        return 'raise', '\\verb%s with delimiter %r and body %r raised %s: %s' % ('*' if star else '', delim, body, type(ex).__name__, ex)
    finally:
        signal.alarm(0)
    vs = d.getElementsByTagName('verb')
    if len(vs) != 1:
        return 'shape', '\\verb with delimiter %r and body %r: %d verb nodes' % (delim, body, len(vs))
    got = str(vs[0].textContent)
    if got != body:
        return 'body', '\\verb%s%s%s%s was reproduced as %r' % ('*' if star else '', delim, body, delim, got)
    text = str(d.textContent)
    if 'AFTER' not in text or 'a–b' not in text or not text.rstrip().endswith('Q'):
        return 'after', 'text after \\verb%s%s%s was processed as %r' % (delim, body, delim, text)
    if len(d.context.contexts) != 1:
        return 'depth', 'context stack at depth %d after \\verb with delimiter %r' % (len(d.context.contexts), delim)
    return 'ok', ''


# ---------------------------------------------------------------------------
def tok_src(toks):
    out = []
    for i, t in enumerate(toks):
        out.append(t)
        if len(t) > 1 and t[0] == '\\' and t[-1].isalpha():
            nxt = toks[i + 1] if i + 1 < len(toks) else ''
            if nxt[:1].isalpha():
                out.append(' ')
    return ''.join(out)


def retok(s):
    """tokenize with the real Tokenizer under default categories; blanks dropped"""
    from plasTeX.Tokenizer import Tokenizer
    from plasTeX.Context import Context
    out = []
    for t in Tokenizer(s, Context()):
        if int(t.catcode) == 10:
            continue
        out.append((int(t.catcode), str(t)))
    return out


CONTAINERS = [('$', '$', 'math'), ('\\(', '\\)', 'math'), ('\\[', '\\]', 'displaymath'),
              ('\\begin{equation}', '\\end{equation}', 'equation'), ('\\textbf{T $', '$}', 'math')]


def replay_math(args):
    beh, ci = args
    from plasTeX.TeX import TeX
    from plasTeX import TeXDocument
    op, cl, nodename = CONTAINERS[ci]
    written = tok_src(beh['w'])
    expected = tok_src(beh['e'])
    src = ('\\documentclass{article}\\def\\vma#1{#1^{2}}\\def\\vmb{\\beta_{0}}\\begin{document}P ' + op + written + cl + ' Q\\end{document}')
    d = TeXDocument()
    t = TeX(d)
    t.input(src)
    try:
        t.parse()
    except Exception as ex:
        return 'raise', 'formula %s in %s..%s raised %s: %s' % (written, op, cl, type(ex).__name__, ex)
    nodes = d.getElementsByTagName(nodename)
    if not nodes:
        return 'shape', 'no <%s> node for formula %s in %s..%s' % (nodename, written, op, cl)
    node = nodes[0]
    source = node.source
    # strip the container's own delimiters
    inner = source.strip()
    for a, b in (('$', '$'), ('\\(', '\\)'), ('\\[', '\\]'), ('\\begin{equation}', '\\end{equation}')):
        if inner.startswith(a) and inner.endswith(b):
            inner = inner[len(a):len(inner) - len(b)]
            break
    else:
        return 'container', 'source %r of formula %s is not wrapped in math delimiters' % (source, written)
    got, want = retok(inner), retok(expected)
    if got != want:
        k = next((i for i in range(min(len(got), len(want))) if got[i] != want[i]), min(len(got), len(want)))
        return 'source', 'formula %s (in %s..%s): reconstructed source %r differs at token %d (%s vs %s) from %r' % (
            written, op, cl, inner, k + 1, got[k] if k < len(got) else 'end', want[k] if k < len(want) else 'end', expected)
    # the text handed to MathJax: the same tokens, with < and > spelled \\lt / \\gt (documented rewrite)
    mj = getattr(node, 'mathjax_source', None)
    if isinstance(mj, str) and mj:
        m2 = mj.replace('\\lt ', '<').replace('\\gt ', '>').strip()
        for a, b in (('$', '$'), ('\\(', '\\)'), ('\\[', '\\]'), ('\\begin{equation}', '\\end{equation}')):
            if m2.startswith(a) and m2.endswith(b):
                m2 = m2[len(a):len(m2) - len(b)]
                break
        if retok(m2) != want:
            return 'mathjax', 'formula %s (in %s..%s): text handed to MathJax %r differs from %r' % (written, op, cl, mj, expected)
    return 'ok', ''


def run(chk):
    tier, seed = chk.tier, chk.seed
    chk.rule = ('verbatim bodies: every concatenation of up to MaxChunks chunks of the catalogue without the complete end marker; \\verb: delimiter '
                'catalogue x body catalogue x star; formulas: every tree of the grammar up to Depth x 5 math containers; non-trivial = body longer '
                'than one chunk / formula with at least one construct; distinct by content')
    chk.assumptions = ['the source-reconstruction part is a pure function: TLC serves as enumerator and reference evaluator of the written/expected token lists',
                       '\\verb delimiters: characters LaTeX accepts (not a letter, not *, not a blank)']
    fixed = 'FALSE' if os.environ.get('C11_ASBUILT') else 'TRUE'
    chunks, mc = (CHUNKS, 3) if tier == 'quick' else (CHUNKS, 4)
    res = tlc.run('MC_Verbatim', cfg_text=CFG_VERB % (mc, fixed), extra_modules={'MC_Verbatim.tla': mc_verbatim(chunks)}, timeout=3400, heap='12g')
    chk.add_tlc(res, 'verbatim(chunks=%d,MaxChunks=%d)' % (len(chunks), mc))
    if not res.ok:
        chk.violation('design:verbatim:' + ','.join(res.violated or ['error']), 'Verbatim.tla: %s\n%s' % (res.violated, res.trace_text[:2000]))
    if not res.beh:
        raise MachineryError('C11: no verbatim bodies emitted')
    results = pmap(replay_verbatim, res.beh, chunksize=100)
    for beh, (kind, msg) in zip(res.beh, results):
        body = unsym(beh['body'])
        chk.case(['verbatim', body], len(body) > 3, {'verbatim body': body} if '\\end{verb' in body and len(chk.samples) < 2 else None)
        chk.traces += 1
        if kind != 'ok':
            chk.violation('verbatim:%s%s' % (kind, ':endverbatim' if '\\endverbatim' in body else ''), msg, body)
    jobs = [(dl, b, st) for dl in DELIMS for b in VERB_BODIES for st in (False, True)]
    results = pmap(replay_verb, jobs, chunksize=20)
    for (dl, b, st), (kind, msg) in zip(jobs, results):
        if kind == 'skip':
            continue
        chk.case(['verb', dl, b, st], True, {'verb': '\\verb%s%s%s%s' % ('*' if st else '', dl, b, dl)} if dl == '~' and b == '\\y{%z' and not st else None)
        chk.traces += 1
        if kind != 'ok':
            cls = 'special' if dl in '~#$&%^_' else 'other'
            chk.violation('verb:%s:%s-delimiter' % (kind, cls), msg, [dl, b, st])
    depth = 2
    rm = tlc.run('MathSource', cfg_text=CFG_MATH % depth, timeout=3400, heap='12g')
    chk.add_tlc(rm, 'formulas(Depth=%d)' % depth)
    if not rm.ok:
        chk.violation('design:math:' + ','.join(rm.violated or ['error']), 'MathSource.tla: %s' % rm.violated)
    if not rm.beh:
        raise MachineryError('C11: no formulas emitted')
    behs = rm.beh
    if len(behs) > 20000:
        behs = random.Random(seed).sample(behs, 20000)
    jobs = [(b, ci) for b in behs for ci in range(len(CONTAINERS))]
    if tier == 'quick' and len(jobs) > 12000:
        jobs = random.Random(seed).sample(jobs, 12000)
    results = pmap(replay_math, jobs, chunksize=100)
    for (beh, ci), (kind, msg) in zip(jobs, results):
        chk.case(['math', beh['w'], ci], len(beh['w']) > 2, {'formula': tok_src(beh['w']), 'expected source': tok_src(beh['e'])} if '\\vma' in beh['w'] and len(chk.samples) < 5 else None)
        chk.traces += 1
        if kind != 'ok':
            feat = next((f for f in ('\\vma', '\\vmb', '\\mbox', '\\left', '\\sqrt', '\\frac', "'", '<') if f in beh['w']), 'plain')
            chk.violation('math:%s:%s' % (kind, feat.strip('\\')), msg, beh)
    chk.exhaustive = True

"""C16 -- configuration values come from defaults, files and command line in that order.

spec -> code : TLC enumerates every layering (each of 0-3 files and the command line independently present/absent,
               type-appropriate texts) for one representative option per type from Config.tla and checks the machine
               against the documented precedence.  Every layering is replayed on EVERY real option of that type of
               every section (including the renderer-contributed html5 / mathjax-macros sections) through the real
               plasTeX.client.main (run() stubbed): real ini files, real argparse; the value of the option under
               test is compared with the specification and all OTHER options with their defaults (no cross-talk).
code -> spec : (this property is a pure function of the layering; the replay direction covers it -- see DESIGN.md)
"""
import contextlib
import io
import json
import os
import shlex
import shutil
import tempfile

from .. import tlc
from ..core import MachineryError, pmap

BOOLWORDS = ['yes', 'no', 'true', 'false', 'on', 'off', '1', '0', 'Yes', 'NO', 'True', 'OFF']
BOOLMEAN = [True, False] * 6
INTERP_OPTS = [('general', 'renderer'), ('general', 'theme'), ('document', 'title')]


def mc_module(types, maxfiles):
    return '''---- MODULE MC_Config ----
EXTENDS Config
MCTypes == %s
MCMaxFiles == %d
MCBoolParsed == %s
====
''' % (tlc.to_tla(set(types)), maxfiles, 'FALSE' if os.environ.get('C16_ASBUILT') else 'TRUE')


CFG = '''CONSTANTS
  Types <- MCTypes
  MaxFiles <- MCMaxFiles
  BoolParsed <- MCBoolParsed
INIT Init
NEXT Next
CHECK_DEADLOCK FALSE
INVARIANT Precedence
INVARIANT InterpCurrent
INVARIANT Emit
'''


def real_config():
    from plasTeX.Config import defaultConfig
    import plasTeX.client as C
    cfg = defaultConfig()
    C.collect_renderer_config(cfg)
    return cfg


def option_table():
    """(section, key, type, class name, flags, default) for every real option."""
    from plasTeX import ConfigManager as CM
    cfg = real_config()
    out = []
    for sn, sec in cfg.items():
        for k, o in sec.data.items():
            if isinstance(o, CM.BooleanOption):
                t = 'bool'
            elif isinstance(o, CM.MultiStringOption):
                t = 'list'
            elif isinstance(o, CM.DictOption):
                t = 'dict'
            elif isinstance(o, CM.IntegerOption):
                t = 'int'
            elif isinstance(o, CM.FloatOption):
                t = 'float'
            elif isinstance(o, CM.StringOption):
                t = 'str'
            else:
                t = 'other:' + type(o).__name__
            out.append({'section': sn, 'key': k, 'type': t, 'cls': type(o).__name__, 'flags': list(o.options),
                        'default': o.value if not isinstance(o.value, (list, dict)) else json.loads(json.dumps(o.value))})
    return out


def snapshot(cfg):
    return dict(((sn, k), json.loads(json.dumps(o.value))) for sn, sec in cfg.items() for k, o in sec.data.items())


def norm(x):
    return {} if isinstance(x, list) and not x else x


def concretise(opt, beh):
    """Layering -> (list of ini texts, argv, expected value or ('default',))."""
    t = beh['ty']
    sec, key = opt['section'], opt['key']
    enable = [f for f in opt['flags'] if not f.startswith('!')]
    disable = [f[1:] for f in opt['flags'] if f.startswith('!')]
    inis, argv = [], []
    dict_item = lambda k, v: (k, str(v))
    cls = opt['cls']

    def dval(v):
        if cls == 'CountersOption':
            return v
        if cls == 'ImageScaleOption':
            return v / 2.0
        return 'v%d' % v

    def dtext(v):
        if cls == 'CountersOption':
            return str(v)
        if cls == 'ImageScaleOption':
            return repr(v / 2.0)
        return 'v%d' % v
    for i, f in enumerate(beh['files']):
        if not f['p']:
            inis.append('')
            continue
        if t == 'str':
            txt = 's%d' % f['v']
        elif t == 'int':
            txt = str(f['v'])
        elif t == 'float':
            txt = repr(f['v'] / 2.0)
        elif t == 'bool':
            txt = BOOLWORDS[f['v'] - 1]
        elif t == 'list':
            txt = ' '.join(shlex.quote('i%d' % x if x != 3 else 'i 3') for x in f['l'])
        elif t == 'dict':
            d = norm(f['d'])
            if i % 2 == 0:
                # unknown keys of the section are routed to its dictionary option
                inis.append('[%s]\n' % sec + ''.join('%s = %s\n' % (k, dtext(v)) for k, v in d.items()))
                continue
            txt = ','.join('%s=%s' % (k, dtext(v)) for k, v in d.items())
        inis.append('[%s]\n%s = %s\n' % (sec, key, txt))
    c = beh['cmd']
    if c['p']:
        if t == 'str':
            argv = [enable[-1], 's%d' % c['v']]
        elif t == 'int':
            argv = [enable[0], str(c['v'])]
        elif t == 'float':
            argv = [enable[0], repr(c['v'] / 2.0)]
        elif t == 'bool':
            if c['v'] == 1:
                argv = [enable[0]]
            elif disable:
                argv = [disable[0]]
            else:
                return None          # this option has no disabling flag: layering not expressible
        elif t == 'list':
            items = ['i%d' % x for x in c['l']]
            argv = [enable[0], items[0]] + ([enable[0]] + items[1:] if len(items) > 1 else [])
        elif t == 'dict':
            for k, v in norm(c['d']).items():
                argv += [enable[0], k, dtext(v)]
    # expected
    fin = beh['final']
    anyp = c['p'] or any(f['p'] for f in beh['files'])
    if t in ('str', 'int', 'float', 'bool') and not anyp:
        want = opt['default']
    elif t == 'str':
        want = 's%d' % fin['v']
    elif t == 'int':
        want = fin['v']
    elif t == 'float':
        want = fin['v'] / 2.0
    elif t == 'bool':
        want = bool(fin['v'])
    elif t == 'list':
        want = list(opt['default']) + ['i%d' % x if x != 3 else 'i 3' for x in fin['l']]
    elif t == 'dict':
        want = dict(opt['default'])
        # the command line form of --link sets <name>-title
        fd = {}
        for f in beh['files']:
            if f['p']:
                fd.update(dict((k, dval(v)) for k, v in norm(f['d']).items()))
        if c['p']:
            for k, v in norm(c['d']).items():
                fd[(k + '-title') if cls == 'LinksOption' else k] = dval(v)
        want.update(fd)
        if cls != 'LinksOption':
            assert want == dict(list(opt['default'].items()) + [(k, dval(v)) for k, v in norm(fin['d']).items()])
    return inis, argv, want


def run_main(inis, argv):
    """Run the real client.main with run() stubbed; returns the ConfigManager it built."""
    import plasTeX.client as C
    d = tempfile.mkdtemp(prefix='verif-c16-')
    cap = []
    old = C.run
    C.run = lambda filename, config: cap.append(config)
    try:
        args = []
        for i, txt in enumerate(inis):
            p = os.path.join(d, 'f%d.ini' % i)
            if txt:
                with open(p, 'w') as f:
                    f.write(txt)
            args += ['--config', p]        # absent files are listed too: they must be ignored silently
        with contextlib.redirect_stdout(io.StringIO()), contextlib.redirect_stderr(io.StringIO()):
            C.main(['doc.tex'] + args + argv)
    finally:
        C.run = old
        shutil.rmtree(d, ignore_errors=True)
    return cap[0]


_OPTS = None
_DEFAULTS = None


def replay_one(beh):
    """Replay one layering on every real option of its type."""
    global _OPTS, _DEFAULTS
    if _OPTS is None:
        _OPTS = option_table()
        _DEFAULTS = snapshot(real_config())
    out = []
    t = beh['ty']
    if t == 'interp':
        return [replay_interp(beh)]
    for opt in _OPTS:
        if opt['type'] != t:
            continue
        c = concretise(opt, beh)
        if c is None:
            continue
        inis, argv, want = c
        try:
            cfg = run_main(inis, argv)
        except BaseException as ex:
            out.append((opt, 'raise', 'main(%s) with files %s raised %s: %s' % (argv, inis, type(ex).__name__, ex)))
            continue
        got = cfg[opt['section']].data[opt['key']].value
        if got != want or type(got) != type(want):
            out.append((opt, 'value', 'option %s.%s (%s): files %s argv %s gave %r, specification %r'
                        % (opt['section'], opt['key'], opt['cls'], [x.replace('\n', ' | ') for x in inis], argv, got, want)))
            continue
        snap = snapshot(cfg)
        for k2, v2 in snap.items():
            if k2 != (opt['section'], opt['key']) and v2 != _DEFAULTS[k2]:
                out.append((opt, 'crosstalk', 'setting %s.%s changed %s.%s to %r' % (opt['section'], opt['key'], k2[0], k2[1], v2)))
                break
        else:
            out.append((opt, 'ok', ''))
    return out


def tmpl_text(parts):
    s = ''
    for p in parts:
        if p['k'] == 'lit':
            s += 'L%d' % p['n']
        elif p['k'] == 'pct':
            s += '%%'
        else:
            s += '%%(%s)s' % INTERP_OPTS[p['n'] - 1][1]
    return s


def expand_text(seq):
    return ''.join('%' if x == 100 else 'L%d' % x for x in seq)


def replay_interp(beh):
    """Interpolation: three real string options carry the templates; values are read back through the
    public mapping interface."""
    import plasTeX.client as C
    inis, argv = [], []
    for f in beh['files']:
        if not f['p']:
            inis.append('')
            continue
        sec, key = INTERP_OPTS[f['v'] - 1]
        inis.append('[%s]\n%s = %s\n' % (sec, key, tmpl_text(f['t'])))
    c = beh['cmd']
    if c['p']:
        sec, key = INTERP_OPTS[c['v'] - 1]
        argv = ['--' + key, tmpl_text(c['t'])]
    # the "defaults" of this scenario are installed through a first configuration file
    base = '[general]\nrenderer = L0\ntheme = L9\n[document]\ntitle =\n'
    opt = {'section': 'general', 'key': 'renderer+theme+title', 'cls': 'StringOption', 'type': 'interp'}
    try:
        cfg = run_main([base] + inis, argv)
        got = [cfg[sec][key] for sec, key in INTERP_OPTS]
    except BaseException as ex:
        return (opt, 'raise', 'interpolation scenario files %s argv %s raised %s: %s' % (inis, argv, type(ex).__name__, ex))
    want = [expand_text(x) for x in beh['readback']]
    if got != want:
        return (opt, 'value', 'read back %r, specification %r (files %s argv %s)' % (got, want, [x.replace('\n', ' | ') for x in inis], argv))
    # the same layering through the API, reading every option back after EACH source (the value a
    # reference shows must follow later changes of the option it names)
    try:
        from argparse import ArgumentParser
        cfg = real_config()
        d = tempfile.mkdtemp(prefix='verif-c16-')
        try:
            def rd(txt):
                p = os.path.join(d, 'f.ini')
                with open(p, 'w') as f:
                    f.write(txt)
                cfg.read(p)
            rd(base)
            parser = ArgumentParser('x')
            cfg.registerArgparse(parser)
            first = [cfg[sec][key] for sec, key in INTERP_OPTS]
            for i, txt in enumerate(inis):
                if txt:
                    rd(txt)
                got = [cfg[sec][key] for sec, key in INTERP_OPTS]
                want = [expand_text(x) for x in beh['rbh'][i]]
                if got != want:
                    return (opt, 'stale', 'after reading file %d (%s) the options read back %r, specification %r'
                            % (i + 1, txt.replace('\n', ' | '), got, want))
            cfg.updateFromDict(vars(parser.parse_args(argv)))
            got = [cfg[sec][key] for sec, key in INTERP_OPTS]
            want = [expand_text(x) for x in beh['rbh'][-1]]
            if got != want:
                return (opt, 'stale', 'after the command line %s the options read back %r, specification %r' % (argv, got, want))
        finally:
            shutil.rmtree(d, ignore_errors=True)
    except BaseException as ex:
        return (opt, 'raise', 'API layering files %s argv %s raised %s: %s' % (inis, argv, type(ex).__name__, ex))
    return (opt, 'ok', '')


def run(chk):
    tier = chk.tier
    chk.rule = ('layerings enumerated by TLC from Config.tla (each of 0..MaxFiles files and the command line independently '
                'present/absent with every type-appropriate text) x every real option of that type; non-trivial = at least two '
                'sources present; distinct by (option, layering)')
    chk.assumptions = ['abstract values are concretised by harness/drivers/c16.py (s<n>, n, n/2, word list, i<n> items, k<n> keys)',
                       '"documented default" is read as the default the option declares (Doc/command.tex is stale in places, see DESIGN.md)']
    table = option_table()
    unknown = [o for o in table if o['type'].startswith('other')]
    if unknown:
        raise MachineryError('C16: option classes the model does not know: %s' % unknown)
    chk.extra['options'] = {'total': len(table), 'by_type': dict((t, sum(1 for o in table if o['type'] == t)) for t in
                                                                 ('str', 'int', 'float', 'bool', 'list', 'dict'))}
    runs = [(['str', 'int', 'float', 'list', 'dict', 'interp'], 3),
            (['bool'], 3 if tier == 'thorough' else 2)]
    behs = []
    for types, mf in runs:
        res = tlc.run('MC_Config', cfg_text=CFG, extra_modules={'MC_Config.tla': mc_module(types, mf)}, timeout=3000)
        chk.add_tlc(res, 'mc+emit(types=%s,MaxFiles=%d)' % (','.join(types), mf))
        if not res.ok:
            chk.violation('design:' + ','.join(res.violated or ['error']),
                          'TLC found a counterexample in the Config design: %s\n%s' % (res.violated, res.trace_text[:3000]))
        behs += res.beh
    if not behs:
        raise MachineryError('C16: no behaviours emitted')
    seen_types = set(b['ty'] for b in behs)
    if seen_types != set(['str', 'int', 'float', 'list', 'dict', 'interp', 'bool']):
        raise MachineryError('C16: types not all exercised: %s' % seen_types)
    results = pmap(replay_one, behs, chunksize=20)
    for beh, outs in zip(behs, results):
        nsrc = int(beh['cmd']['p']) + sum(1 for f in beh['files'] if f['p'])
        for opt, kind, msg in outs:
            chk.case([opt['section'], opt['key'], beh['files'], beh['cmd']], nsrc >= 2,
                     {'option': '%s.%s' % (opt['section'], opt['key']), 'type': beh['ty'],
                      'files_present': [f['p'] for f in beh['files']], 'cmd_present': beh['cmd']['p']} if nsrc >= 3 else None)
            chk.traces += 1
            if kind != 'ok':
                sig = 'replay:%s:%s' % (kind, beh['ty'])
                if beh['ty'] == 'bool' and kind == 'value':
                    last = [f for f in beh['files'] if f['p']]
                    sig += ':file-word' if (not beh['cmd']['p'] and last) else ''
                chk.violation(sig, msg, {'layering': beh, 'option': opt})
    chk.exhaustive = True
    chk.extra['bounds'] = {'runs': [{'types': t, 'MaxFiles': m} for t, m in runs]}

"""C13 -- splitting the output into files loses nothing, repeats nothing and names every file once.

spec -> code : Split.tla: TLC enumerates every document of up to MaxNodes sectioning units (level, labelled?, footnote?, title from a set
               that contains a repeated title and one made of characters that are illegal in file names) x split level x filename template
               (the default `index [$id, sect$num(4)]`, a `$title` template, a single-name template), checks the machine layer (pre-order
               filename requests, Renderable.__str__ with file-owning children omitted, footnotes gathered by the nearest file-owning
               section) against the rule layer (MachineIsRule, EveryWordOnceInOneFile, UnitsAtOrAboveLevelOwnFile, NamesDistinct) and
               prints, per behaviour, the files with their names and marker content.  Every behaviour is concretised as a LaTeX document
               and run through the real Compile.run (parse, render, write) into a scratch directory; the set of files written, their
               names and the order of body and footnote markers in each file must equal the specification's, and a second run in the
               same interpreter must produce the same files (up to the spelling of generated identifiers, which C17 owns).
"""
import hashlib
import os
import random
import re
import shutil
import tempfile

from .. import tlc
from ..core import MachineryError, pmap

TITLES = {'Intro': 'Intro', 'Setup': 'Set up: now'}
BAD = ': #$%^&*!~`"=?/{}[]()|<>;\\,.'
LABEL = {'own': 'lab%d', 'index': 'index', 'sect1': 'sect0001'}


def label(nodes, i):
    """the label text of unit i (1-based)"""
    k = nodes[i - 1]['lab']
    return LABEL[k] % i if k == 'own' else LABEL[k]


TEMPLATES = {'default': None, 'title': 'index [$title, sect$num(4)]', 'single': 'only', 'plain': 'index sect$num(4)'}
CLASSES = {
    'article': (['section', 'subsection', 'subsubsection'], 0),
    'book': (['chapter', 'section', 'subsection'], -1),
}

CFG = '''CONSTANTS
  MaxNodes = %d
  SplitLevels = {0, 1, 2, 3}
  Templates = {%s}
  MaxRefs = %d
  LabKinds = {%s}
  RefKinds = {"sec"}
INIT Init
NEXT Next
CHECK_DEADLOCK FALSE
INVARIANT MachineIsRule
INVARIANT EveryWordOnceInOneFile
INVARIANT UnitsAtOrAboveLevelOwnFile
INVARIANT NamesDistinct
INVARIANT LinksLand
INVARIANT NavIsAChain
INVARIANT TocReachesEveryFile
INVARIANT TocEntriesOwnFiles
INVARIANT Emit
'''


def clean(title):
    return ''.join('-' if c in BAD else c for c in title)


def name_of(n, variant=None):
    n = list(n)
    if n[0] in ('index', 'only'):
        return n[0]
    if n[0] == 'id':
        return 'lab%d' % n[1]
    if n[0] == 'title':
        if variant == 'badchars':
            return ''.join('_' if c in ' :' else c for c in TITLES[n[1]])
        if variant == 'title1':
            return clean(TITLES[n[1]].split()[0])
        return clean(TITLES[n[1]])
    if n[0] == 'sect':
        return ('sect%02d' if variant == 'title1' else 'sect%04d') % n[1]
    raise MachineryError('unknown name %r' % (n,))


def concretise(beh, cls='article', samefn=False):
    cmds, _ = CLASSES[cls]
    refs = beh.get('refs') or []
    out = ['\\documentclass{%s}\n\\begin{document}\n' % cls]

    def body(i, fn):
        s = 'bb%d text' % i
        if fn:
            s += '\\footnote{ff%d note}' % (999 if samefn else i)       # samefn: every footnote has the same wording
        for k, r in enumerate(refs):
            if r['from'] == i:
                s += ' see rr%d \\ref{%s} here' % (k + 1, label(beh['nodes'], r['to']))
        return s + '\n\n'
    out.append(body(0, beh['docfn']))
    for i, n in enumerate(beh['nodes'] or []):
        out.append('\\%s{%s}%s\n' % (cmds[n['lvl'] - 1], TITLES[n['title']], '\\label{%s}' % label(beh['nodes'], i + 1) if n['lab'] != 'none' else ''))
        out.append(body(i + 1, n['fn']))
    out.append('\\end{document}\n')
    return ''.join(out)


def overrides(beh, cls='article', variant=None):
    ov = {('files', 'split-level'): beh['split'] + CLASSES[cls][1], ('general', 'copy-theme-extras'): False}
    if TEMPLATES[beh['tmpl']]:
        ov[('files', 'filename')] = TEMPLATES[beh['tmpl']]
    if variant == 'edge-split':
        # the ends of the documented range: below every unit / above every unit of the grammar
        if beh['split'] == 0:
            ov[('files', 'split-level')] = -10
        elif beh['split'] == 3:
            ov[('files', 'split-level')] = 6
    elif variant == 'badchars':
        ov[('files', 'bad-chars')] = ' :'
        ov[('files', 'bad-chars-sub')] = '_'
    elif variant == 'title1' and beh['tmpl'] == 'title':
        ov[('files', 'filename')] = 'index [$title(1), sect$num(2)]'
    elif variant == 'ext' and beh['tmpl'] == 'default':
        ov[('files', 'filename')] = 'index.html [$id, sect$num(4)]'        # an explicit extension on one name only: same files
    elif variant == 'ext2' and beh['tmpl'] == 'default':
        ov[('files', 'filename')] = 'index [$id.html, sect$num(4)]'
    return ov


_strip = re.compile(r'<script\b.*?</script>|<style\b.*?</style>|<head\b.*?</head>', re.S)
_mark = re.compile(r'\b(bb|ff)(\d+)\b')


def markers(html):
    text = re.sub(r'<[^>]*>', ' ', _strip.sub(' ', html))
    return [[m.group(1)[0], int(m.group(2))] for m in _mark.finditer(text)]


def render(src, ov, renderer='HTML5', keep=False):
    """run the real pipeline in a scratch directory; returns {filename: text} of the html files"""
    from .. import render as R
    d = tempfile.mkdtemp(prefix='vsplit')
    try:
        with open(os.path.join(d, 'doc.tex'), 'w') as f:
            f.write(src)
        import logging
        logging.disable(logging.CRITICAL)
        import sys
        err = sys.stderr
        sys.stderr = open(os.devnull, 'w')
        try:
            R.compile_file('doc.tex', d, renderer=renderer, overrides=ov)
        finally:
            sys.stderr = err
        outdir = os.path.join(d, 'doc')
        files = {}
        for fn in sorted(os.listdir(outdir)):
            p = os.path.join(outdir, fn)
            if os.path.isfile(p) and fn.endswith(('.html', '.xhtml', '.xml')):
                files[fn] = open(p, encoding='utf-8').read()
        return files
    finally:
        shutil.rmtree(d, ignore_errors=True)


def replay_one(job):
    beh, cls, renderer, twice, variant = job
    src = concretise(beh, cls, samefn=(variant == 'samefn'))
    ov = overrides(beh, cls, variant)
    try:
        files = render(src, ov, renderer)
    except Exception as ex:
        return 'raise', 'rendering raised %s: %s\n%s' % (type(ex).__name__, ex, src)
    want = dict((name_of(f['name'], variant) + '.html', [[m[0], 999] if (variant == 'samefn' and m[0] == 'f') else list(m) for m in f['content']])
                for f in beh['files'])
    ctx = '(split-level %s, template %s, class %s, renderer %s, variant %s)\n%s' % (ov[('files', 'split-level')], ov.get(('files', 'filename'), 'default'), cls, renderer, variant, src)
    if sorted(files) != sorted(want):
        kind = 'names'
        if len(files) != len(want):
            kind = 'filecount'
        return kind, 'files written %s, specification %s %s' % (sorted(files), sorted(want), ctx)
    for fn in sorted(want):
        got = markers(files[fn])
        if got != want[fn]:
            gs, ws = sorted(map(tuple, got)), sorted(map(tuple, want[fn]))
            if gs == ws:
                kind = 'order'
            elif len(set(map(tuple, got))) < len(got):
                kind = 'repeated'
            elif set(ws) - set(gs):
                kind = 'lost'
            else:
                kind = 'extra'
            if any(m[0] == 'f' for m in (set(gs) ^ set(ws))) or (kind == 'order' and [m for m in got if m[0] == 'b'] == [m for m in want[fn] if m[0] == 'b']):
                kind += ':footnote'
            return 'content:' + kind, 'file %s holds %s, specification %s %s' % (fn, got, want[fn], ctx)
    if twice:
        try:
            again = render(src, ov, renderer)
        except Exception as ex:
            return 'raise', 'second rendering raised %s: %s\n%s' % (type(ex).__name__, ex, src)
        norm = lambda fs: dict((fn, re.sub(r'\ba\d{10}\b', 'aID', t)) for fn, t in fs.items())
        if norm(again) != norm(files):
            diff = [fn for fn in set(files) | set(again) if norm(files).get(fn) != norm(again).get(fn)]
            return 'nondeterministic', 'two runs differ in %s %s' % (sorted(diff), ctx)
    return 'ok', ''


def behaviours(chk, tier, seed, maxrefs=0, labkinds='"none", "own", "index", "sect1"', refkinds=None):
    """exhaustive check of the design at the larger bound, behaviours printed at the smaller bound and by simulation beyond it"""
    alltm = '"default", "title", "plain", "single"'
    cfg = CFG if refkinds is None else CFG.replace('RefKinds = {"sec"}', 'RefKinds = {%s}' % refkinds)
    noemit = cfg.replace('INVARIANT Emit\n', '')
    big, small = (3, 2) if tier == 'quick' else (4, 3)
    # four units with all four label kinds are ~100M states: the largest bound runs with two label kinds
    biglab = labkinds if big <= 3 else '"none", "own"'
    res = tlc.run('Split', cfg_text=noemit % (big, alltm, maxrefs, biglab), timeout=3400, heap='12g', want_beh=False)
    chk.add_tlc(res, 'split(MaxNodes=%d,refs<=%d,labels=%s)' % (big, maxrefs, biglab.replace('"', '')))
    if not res.ok:
        chk.violation('design:' + ','.join(res.violated or ['error']),
                      'TLC found a counterexample in the Split design: %s\n%s' % (res.violated, res.trace_text[:2500]))
    res = tlc.run('Split', cfg_text=cfg % (small, alltm, maxrefs, labkinds), timeout=3400, heap='12g')
    chk.add_tlc(res, 'split-emit(MaxNodes=%d,refs<=%d)' % (small, maxrefs))
    behs = list(res.beh)
    nsim, dsim = (4000, 8) if tier == 'quick' else (60000, 10)
    rs = tlc.run('Split', cfg_text=cfg % (5, alltm, max(maxrefs, 2) if maxrefs else 0, labkinds), simulate=nsim, depth=dsim, seed=seed + 5,
                 timeout=3400, heap='8g', workers=4)
    chk.add_tlc(rs, 'simulate(num=%d,depth=%d,MaxNodes=5)' % (nsim, dsim))
    if rs.violated:
        chk.violation('design:sim:' + ','.join(rs.violated), 'TLC simulation found a counterexample: %s\n%s' % (rs.violated, rs.trace_text[:2500]))
    seen = set()
    for b in rs.beh:
        k = repr((b['nodes'], b['refs'], b['split'], b['tmpl'], b['docfn']))
        if k not in seen and len(b['nodes']) > small:
            seen.add(k)
            behs.append(b)
    return behs


def nontrivial(beh):
    """more than one file, or a unit folded into its ancestor's file with a footnote"""
    return len(beh['files']) > 1 or any(n['fn'] for n in beh['nodes'])


def collides(beh):
    return any(n['lab'] in ('index', 'sect1') for n in beh['nodes'])


def run(chk):
    tier, seed = chk.tier, chk.seed
    chk.rule = ('every document of up to MaxNodes sectioning units x split level x filename template; non-trivial = more than one file or a '
                'footnote to place; distinct by (units, split, template, class, renderer, configuration variant: split level -10 / 6, bad-chars set, $title(1)/$num(2))')
    chk.assumptions = ['body text and footnote text are identified by unique marker words; titles are not unique on purpose',
                       'theme extras are not copied (general.copy-theme-extras off) to keep a rendering at 0.1 s; C14 checks them']
    behs = behaviours(chk, tier, seed)
    if not behs:
        raise MachineryError('C13: no behaviours emitted')
    rnd = random.Random(seed)
    small = [b for b in behs if len(b['nodes']) <= 1]
    big = [b for b in behs if len(b['nodes']) > 1]
    rnd.shuffle(big)
    big.sort(key=lambda b: not collides(b) or len(b['files']) < 2)       # name collisions first
    nbig = 3500 if tier == 'quick' else 20000
    jobs = []
    for k, b in enumerate(small + big[:nbig]):
        jobs.append((b, 'article', 'HTML5', k % 16 == 0, None))
    nx = 500 if tier == 'quick' else 2000
    extra = big[nbig:nbig + nx] or big[:nx]
    for k, b in enumerate(extra):
        jobs.append((b, 'book', 'HTML5', False, None))
        jobs.append((b, 'article', 'XHTML', False, None))
    edge = [b for b in small + big if b['split'] in (0, 3)]
    rnd.shuffle(edge)
    for b in edge[:nx]:
        jobs.append((b, 'article', 'HTML5', False, 'edge-split'))
    ttl = [b for b in small + big if b['tmpl'] == 'title' and len(b['files']) > 1]
    rnd.shuffle(ttl)
    for b in ttl[:nx]:
        jobs.append((b, 'article', 'HTML5', False, 'badchars'))
        jobs.append((b, 'article', 'HTML5', False, 'title1'))
    fns = [b for b in small + big if sum(1 for n in b['nodes'] if n['fn']) + (1 if b['docfn'] else 0) >= 2]
    rnd.shuffle(fns)
    for b in fns[:nx]:
        jobs.append((b, 'article', 'HTML5', False, 'samefn'))
    dfl = [b for b in small + big if b['tmpl'] == 'default' and len(b['files']) > 1 and any(n['lab'] in ('index', 'sect1') for n in b['nodes'])]
    rnd.shuffle(dfl)
    for b in dfl[:nx]:
        jobs.append((b, 'article', 'HTML5', False, 'ext'))
        jobs.append((b, 'article', 'HTML5', False, 'ext2'))
    results = pmap(replay_one, jobs, chunksize=20)
    for (beh, cls, rend, twice, variant), (kind, msg) in zip(jobs, results):
        key = [beh['nodes'], beh['docfn'], beh['split'], beh['tmpl'], cls, rend, variant]
        chk.case(key, nontrivial(beh), {'document': concretise(beh, cls), 'split': beh['split'], 'template': beh['tmpl'],
                                        'files': [[name_of(f['name']), f['content']] for f in beh['files']]}
                 if len(beh['files']) >= 3 and len(chk.samples) < 4 else None)
        chk.traces += 1
        if kind != 'ok':
            chk.violation('replay:%s:%s:%s%s' % (kind, beh['tmpl'], rend, ':' + variant if variant else ''), msg, key)
    chk.extra['renderings'] = len(jobs) + sum(1 for j in jobs if j[3])
    chk.exhaustive = tier != 'quick' or not big[nbig:]

"""C09 -- every reference resolves to the object its label names, wherever the label is.

spec -> code : for several assignments of labels to objects and of references to labels (existing, shared and dangling labels,
               two labels on one object, many references to one label) TLC explores ALL interleavings of object starts, labels
               and references in Crossref.tla, checks ResolvesToLabelled / ResolvedIffLabelKnown / PendingEmptiedForKnownLabels /
               DistinctIds, and prints every complete interleaving.  Each is concretised as a LaTeX document (objects are
               sections, theorems, list items, figure and table captions, equations -- chosen per behaviour) and parsed by the
               real engine: for every \\ref / \\pageref node the object in idref is compared BY IDENTITY with the k-th numbered
               object of the document, dangling references must hold a placeholder without number, identifiers and the table of
               unresolved references are compared.
"""
import os

from .. import tlc
from ..core import MachineryError, pmap
from . import c08

CONFIGS = [
    # (NObj, LabelOf, RefLabel)
    (3, {'la': 1, 'lb': 2, 'lc': 3}, {'r1': 'la', 'r2': 'lc', 'r3': 'ld'}),
    (2, {'la': 1, 'lb': 2}, {'r1': 'la', 'r2': 'la', 'r3': 'lb', 'r4': 'lx'}),
    (2, {'la': 1, 'lb': 1, 'lc': 2}, {'r1': 'la', 'r2': 'lb', 'r3': 'lc'}),
    (3, {'lb': 2}, {'r1': 'lb', 'r2': 'lb', 'r3': 'lb', 'r4': 'lz'}),
]
CONFIGS_THOROUGH = [
    (4, {'la': 1, 'lb': 2, 'lc': 3, 'ld': 4}, {'r1': 'la', 'r2': 'ld', 'r3': 'lb', 'r4': 'lq'}),
    (3, {'la': 1, 'lb': 2, 'lc': 3}, {'r1': 'la', 'r2': 'lc', 'r3': 'lc', 'r4': 'lb', 'r5': 'ly', 'r6': 'la'}),
]


def mc_module(nobj, labelof, reflabel):
    return '''---- MODULE MC_Crossref ----
EXTENDS Crossref
MCLabelOf == %s
MCRefLabel == %s
====
''' % ('(' + ' @@ '.join('"%s" :> %d' % kv for kv in labelof.items()) + ')',
       '(' + ' @@ '.join('"%s" :> "%s"' % kv for kv in reflabel.items()) + ')')


CFG = '''CONSTANTS
  NObj = %d
  LabelOf <- MCLabelOf
  RefLabel <- MCRefLabel
  DropPending = TRUE
INIT Init
NEXT Next
VIEW view
CHECK_DEADLOCK FALSE
INVARIANT ResolvesToLabelled
INVARIANT ResolvedIffLabelKnown
INVARIANT PendingEmptiedForKnownLabels
INVARIANT DistinctIds
'''
# all interleavings (paths), not only distinct states: no VIEW for the emitting run
CFG_EMIT = CFG.replace('VIEW view\n', '') + 'INVARIANT Emit\n'

KINDS = ['section', 'theorem', 'item', 'figure', 'subsection', 'table', 'equation', 'eqrow', 'subsubsection']   # the last one is below sec-num-depth: unnumbered, still a label target


def concretise(beh, salt):
    """Objects are sections, theorems, list items, figure/table captions, equations or eqnarray rows (chosen per
    behaviour).  Placement variants: a label (and the references up to the next object) may sit INSIDE the object's
    own argument -- section title, caption text, the optional argument of a theorem or an \\item -- and a caption
    may be empty."""
    h = beh['h']
    out = [r'\documentclass{article}', r'\newtheorem{tha}{Theorem}', r'\begin{document}', 'Start. ']
    closer = ''
    oi = 0
    nref = 0
    i = 0

    def ev_src(e):
        nonlocal nref
        if e['e'] == 'label':
            return r'\label{%s}' % e['x']
        nref += 1
        return ' see %s{%s}. ' % (r'\ref' if (salt + nref) % 3 else r'\pageref', beh['reflabel'][e['x']])
    while i < len(h):
        e = h[i]
        if e['e'] != 'obj':
            out.append(ev_src(e))
            i += 1
            continue
        out.append(closer)
        closer = ''
        oi += 1
        j = i + 1
        inner = []
        while j < len(h) and h[j]['e'] != 'obj':
            inner.append(h[j])
            j += 1
        kind = KINDS[(salt + oi * 3) % len(KINDS)]
        variant = (salt // 7 + oi) % 3
        if kind in ('equation', 'eqrow') and any(x['e'] == 'ref' for x in inner):
            kind = 'section'
        inside = ''
        consumed = 0
        if variant == 1 and inner and inner[0]['e'] == 'label' and kind not in ('equation', 'eqrow'):
            # the leading label (sections, theorems, items) or all inner events (captions) go into the argument
            take = len(inner) if kind in ('figure', 'table') else 1
            inside = ''.join(ev_src(x) for x in inner[:take])
            consumed = take
        if kind in ('section', 'subsection', 'subsubsection'):
            out.append('\\%s{Title %d%s}' % (kind, oi, inside))
        elif kind == 'theorem':
            out.append(r'\begin{tha}%s Statement %d. ' % ('[Name %d%s]' % (oi, inside) if inside else '', oi))
            closer = r'\end{tha}'
        elif kind == 'item':
            out.append(r'\begin{enumerate}\item%s Point %d. ' % ('[Term %d%s]' % (oi, inside) if inside else '', oi))
            closer = r'\end{enumerate}'
        elif kind in ('figure', 'table'):
            text = '' if variant == 2 else 'Caption %d' % oi
            out.append(r'\begin{%s}\caption{%s%s}' % (kind, text, inside))
            closer = r'\end{%s}' % kind
        elif kind == 'equation':
            out.append(r'\begin{equation}x_%d' % oi)
            closer = r'\end{equation}'
        else:
            # the labelled equation is the SECOND line of an eqnarray (the first line carries no number)
            out.append(r'\begin{eqnarray}a&=&b\nonumber\\ c&=&d_%d' % oi)
            closer = r'\end{eqnarray}'
        i += 1 + consumed
    out.append(closer)
    out.append(r' End.\end{document}')
    return ''.join(out)


def numbered_objects(doc):
    from plasTeX.Base.LaTeX.Arrays import Array
    out = []

    def walk(node):
        name = getattr(node, 'nodeName', None)
        if name in ('section', 'subsection', 'subsubsection', 'equation', 'thmenv', 'item', 'caption'):
            out.append(node)
        elif isinstance(node, Array.ArrayRow) and getattr(node.parentNode, 'nodeName', None) == 'eqnarray':
            if node.ref is not None:
                out.append(node)
        for c in (node.childNodes if node.hasChildNodes() else []):
            if getattr(c, 'nodeType', None) in (c.ELEMENT_NODE, 11):
                walk(c)
    walk(doc)
    return out


def replay_one(args):
    beh, salt = args
    from plasTeX.TeX import TeX
    from plasTeX import TeXDocument
    src = concretise(beh, salt)
    d = TeXDocument()
    t = TeX(d)
    t.input(src)
    try:
        t.parse()
    except Exception as ex:
        return 'raise', 'document raised %s: %s\n%s' % (type(ex).__name__, ex, src)
    objs = numbered_objects(d)
    refs = []
    for n in d.getElementsByTagName('ref') + d.getElementsByTagName('pageref'):
        if not any(n is m for m in refs):
            refs.append(n)
    # document order of reference nodes = order of ref events: sort by position in a full walk
    order = {}

    def walk(node, k=[0]):
        order.setdefault(id(node), k[0])
        k[0] += 1
        for key, val in (getattr(node, 'attributes', None) or {}).items():
            if key != 'self' and val is not None and hasattr(val, 'childNodes'):
                for c in val.childNodes:
                    if getattr(c, 'nodeType', None) in (c.ELEMENT_NODE, 11):
                        walk(c)
        for c in (node.childNodes if node.hasChildNodes() else []):
            if getattr(c, 'nodeType', None) in (c.ELEMENT_NODE, 11):
                walk(c)
    walk(d)
    refs.sort(key=lambda n: order.get(id(n), 0))
    revents = [e['x'] for e in beh['h'] if e['e'] == 'ref']
    if len(refs) != len(revents):
        return 'machinery', 'found %d reference nodes for %d reference events in\n%s' % (len(refs), len(revents), src)
    for node, r in zip(refs, revents):
        want = beh['idref'][r]
        got = node.idref.get('label')
        if want['k'] == 'obj':
            if want['o'] > len(objs) or got is not objs[want['o'] - 1]:
                which = next((i + 1 for i, o in enumerate(objs) if o is got), None)
                return 'resolve', 'reference %s to label %s points to %s, the label names object %d, in\n%s' % (
                    r, beh['reflabel'][r], ('object %d' % which) if which else 'no numbered object (%r)' % getattr(got, 'id', got), want['o'], src)
            tgt = objs[want['o'] - 1]
            if tgt.nodeName == 'subsubsection' and tgt.ref is None:
                continue        # a unit below sec-num-depth has no number to show; the reference names it all the same
            if got.ref is None or tgt.ref is None or str(got.ref.textContent) != str(tgt.ref.textContent):
                return 'number', 'reference %s shows %r, its target is numbered %r, in\n%s' % (r, got.ref, tgt.ref, src)
        else:
            if got is None or any(o is got for o in objs) or getattr(got, 'ref', None) is not None or getattr(got, 'id', None) != want['l']:
                return 'dangling', 'dangling reference %s to %s resolved to %r in\n%s' % (r, want['l'], got, src)
    for i, o in enumerate(objs):
        wid = beh['ids'][i] if isinstance(beh['ids'], list) else beh['ids'][str(i + 1)]
        if wid and o.id != wid:
            return 'id', 'object %d has identifier %r, its label is %r, in\n%s' % (i + 1, o.id, wid, src)
    pend = sorted(str(k) for k in d.context.refs.keys())
    wantp = sorted(set(v['l'] for v in beh['idref'].values() if v['k'] == 'placeholder'))
    if pend != wantp:
        return 'pending', 'unresolved-reference table holds %s at the end, only %s are dangling, in\n%s' % (pend, wantp, src)
    return 'ok', ''


def run(chk):
    tier, seed = chk.tier, chk.seed
    chk.rule = ('every interleaving of object starts, labels and references for each label/reference assignment; non-trivial = at '
                'least one reference precedes its label (forward reference); distinct by event order and configuration')
    chk.assumptions = ['NF-DOC: a label is written inside its object (before the next numbered object starts); labels naming distinct '
                       'objects are distinct; object kinds are chosen per behaviour by the harness (seeded)']
    configs = CONFIGS + (CONFIGS_THOROUGH if tier == 'thorough' else CONFIGS_THOROUGH[:1])
    total = 0
    for ci, (nobj, labelof, reflabel) in enumerate(configs):
        mod = mc_module(nobj, labelof, reflabel)
        res = tlc.run('MC_Crossref', cfg_text=CFG % nobj, extra_modules={'MC_Crossref.tla': mod}, timeout=3400)
        chk.add_tlc(res, 'mc(config %d)' % ci)
        if not res.ok:
            chk.violation('design:' + ','.join(res.violated or ['error']),
                          'TLC found a counterexample in the Crossref design: %s\n%s' % (res.violated, res.trace_text[:2500]))
        rese = tlc.run('MC_Crossref', cfg_text=CFG_EMIT % nobj, extra_modules={'MC_Crossref.tla': mod}, timeout=3400, heap='8g')
        chk.add_tlc(rese, 'all-interleavings(config %d)' % ci)
        if not rese.beh:
            raise MachineryError('C09: no behaviours emitted')
        behs = rese.beh
        for b in behs:
            b['reflabel'] = reflabel
        if tier == 'quick' and len(behs) > 6000:
            import random
            behs = random.Random(seed + ci).sample(behs, 6000)
        jobs = [(b, seed + ci * 7 + i) for i, b in enumerate(behs)]
        results = pmap(replay_one, jobs, chunksize=100)
        for (beh, salt), (kind, msg) in zip(jobs, results):
            seenl = set()
            fwd = False
            for e in beh['h']:
                if e['e'] == 'label':
                    seenl.add(e['x'])
                elif e['e'] == 'ref' and reflabel[e['x']] in labelof and reflabel[e['x']] not in seenl:
                    fwd = True
            total += 1
            chk.case([ci, beh['h']], fwd, {'events': [e['e'] + ':' + e['x'] for e in beh['h']], 'document': concretise(beh, salt)[70:360]}
                     if fwd and total % 997 == 0 else None)
            chk.traces += 1
            if kind == 'machinery':
                raise MachineryError('C09: ' + msg)
            if kind != 'ok':
                chk.violation('replay:' + kind, msg, {'events': beh['h']})
    chk.exhaustive = True
    chk.extra['configs'] = [{'objects': c[0], 'labels': c[1], 'refs': c[2]} for c in configs]

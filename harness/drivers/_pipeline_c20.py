"""C20 thorough: the full pipeline around the .paux file (placeholder until the renderer drivers exist)."""


def run(chk):
    chk.extra['pipeline'] = 'not run (renderer-level pipeline is exercised by C13/C14 drivers)'

"""C20, pipeline level: documents rendered by the real pipeline write <job>.paux; another document compiled in the
same directory restores every OTHER document's labels (Compile.parse's loop) and its \\ref's resolve to the saved
number and location; a damaged sibling file never makes the run fail and is healed by the next run of its owner."""
import os
import pickle
import re
import shutil
import tempfile

from ..render import compile_file

DOC = r'''\documentclass{article}
\begin{document}
\section{First %(job)s}
\section{Title of %(job)s}\label{sec:%(job)s}
Text.
\end{document}
'''
MAIN = r'''\documentclass{article}
\begin{document}
\section{Main}\label{sec:main}
%(refs)s
\end{document}
'''


def run(chk, renderer='HTML5'):
    d = tempfile.mkdtemp(prefix='verif-c20p-')
    try:
        # sibling job names chosen so that their file names are related to the main job's name
        jobs = ['xintro', 'book-intro', 'intro2', 'other', 'intr']
        for j in jobs:
            with open(os.path.join(d, j + '.tex'), 'w') as f:
                f.write(DOC % {'job': j})
            compile_file(j + '.tex', d, renderer)
            if not os.path.exists(os.path.join(d, j + '.paux')):
                chk.violation('pipeline:nosave', 'rendering %s.tex wrote no %s.paux' % (j, j))
                return
            data = pickle.load(open(os.path.join(d, j + '.paux'), 'rb'))
            lab = data.get(renderer, {}).get('sec:' + j)
            chk.case(['pipeline-save', j, renderer], True)
            if not lab or lab.get('ref') != '2' or 'Title of' not in str(lab.get('title')) or not lab.get('url'):
                chk.violation('pipeline:saved-attrs', '%s.paux holds %r for sec:%s (expected number 2, its title and a url)' % (j, lab, j))
        with open(os.path.join(d, 'intro.tex'), 'w') as f:
            f.write(MAIN % {'refs': '\n'.join(r'[%s:\ref{sec:%s}]' % (j, j) for j in jobs)})

        def check_main(expect, tag):
            try:
                tex = compile_file('intro.tex', d, renderer, {('files', 'split-level'): -10})
            except BaseException as ex:
                chk.violation('pipeline:raise:' + tag, 'compiling intro.tex next to %s raised %s: %s' % (sorted(os.listdir(d)), type(ex).__name__, ex))
                return
            labels = tex.ownerDocument.context.labels
            html = open(os.path.join(d, 'intro', 'index.html'), encoding='utf-8').read()
            for j in jobs:
                chk.case(['pipeline-restore', j, tag, renderer], True,
                         {'pipeline': 'intro.tex references sec:%s saved by %s.tex' % (j, j)} if j == 'xintro' and tag == 'clean' else None)
                m = re.search(r'\[%s:(.*?)\]' % re.escape(j), html, re.S)
                shown = re.sub(r'<[^>]*>', '', m.group(1)).strip() if m else None
                href = re.search(r'href="([^"]*)"', m.group(1)) if m else None
                if j in expect:
                    if 'sec:' + j not in labels:
                        chk.violation('pipeline:not-restored', 'labels of %s.paux were not restored while compiling intro.tex (%s)' % (j, tag))
                    elif shown != '2' or not href or j not in href.group(1):
                        chk.violation('pipeline:ref', '\\ref{sec:%s} rendered as %r href %r; expected number 2 linking into %s' % (j, shown, href and href.group(1), j))
                else:
                    if 'sec:' + j in labels:
                        chk.violation('pipeline:restored-damaged', 'labels of the damaged %s.paux appeared (%s)' % (j, tag))
            if 'sec:main' in [k for k in labels if False]:
                pass
        check_main(set(jobs), 'clean')
        # the document's own file is skipped by the loop but rewritten at the end
        own = pickle.load(open(os.path.join(d, 'intro.paux'), 'rb'))
        if 'sec:main' not in own.get(renderer, {}):
            chk.violation('pipeline:own', 'intro.paux does not hold sec:main after the run: %r' % own)
        # damage one sibling: truncated file
        p = os.path.join(d, 'xintro.paux')
        good = open(p, 'rb').read()
        open(p, 'wb').write(good[:len(good) // 2])
        check_main(set(jobs) - {'xintro'}, 'truncated-sibling')
        open(p, 'wb').write(b'')
        check_main(set(jobs) - {'xintro'}, 'empty-sibling')
        # the owner's next run heals it
        compile_file('xintro.tex', d, renderer)
        check_main(set(jobs), 'healed')
        chk.extra['pipeline'] = 'rendered %d sibling documents + main document 4 times with %s' % (len(jobs), renderer)
    finally:
        shutil.rmtree(d, ignore_errors=True)

"""C19 -- ifthen tests evaluate as the boolean expression they spell.

spec -> code : TLC enumerates every expression tree up to a depth (with minimal and with redundant parentheses)
               from IfThen.tla, checks the evaluator machine (infix->postfix with the precedence table, postfix
               evaluation) against the denotation, and prints the token list and value of each; every one is
               concretised as \\ifthenelse{...}{Y\\stepcounter{cy}}{N\\stepcounter{cn}} with atoms drawn from
               \\equal, \\isodd, \\isundefined, \\boolean, \\lengthtest, integer comparisons of literals, \\value and
               macro-produced numbers, upper/lower-case operators and optional blanks, and run by the real parser.
               \\whiledo iteration counts from WhileDo.tla are replayed the same way.
code -> spec : seeded random deeper trees (depth <= 5) are spelled by the harness, run on the real code and the
               (token list, observed value) pairs are validated by TLC re-running the machine on exactly those tokens.
"""
import json
import os
import random
import shutil

from .. import tlc
from ..core import MachineryError, pmap

CFG = '''CONSTANTS
  Depth = %d
  FullParens = {FALSE, TRUE}
  NotPrefix = %s
INIT Init
NEXT Next
INVARIANT NeverUnderflows
INVARIANT EvalIsDenotation
INVARIANT OneValue
INVARIANT Emit
CHECK_DEADLOCK FALSE
'''
CFG_LIVE = '''CONSTANTS
  Depth = 1
  FullParens = {FALSE, TRUE}
  NotPrefix = %s
SPECIFICATION Spec
PROPERTY Terminates
CHECK_DEADLOCK FALSE
'''
CFG_WHILE = '''CONSTANTS
  MaxN = 6
  Kinds = {"lt", "notgt", "or", "andnot", "false"}
  Bodies = {"plain", "ifthenelse", "nested"}
SPECIFICATION Spec
INVARIANT LoopCount
INVARIANT Emit
PROPERTY Terminates
CHECK_DEADLOCK FALSE
'''

PREAMBLE = (r'\documentclass{article}\usepackage{ifthen}'
            r'\newcounter{cone}\setcounter{cone}{1}\newcounter{ctwo}\setcounter{ctwo}{2}\newcounter{cthree}\setcounter{cthree}{3}'
            r'\newcounter{cy}\newcounter{cn}\newcounter{wc}'
            r'\def\vnone{1}\def\vntwo{2}\def\vnthree{3}'
            r'\newboolean{vbtrue}\setboolean{vbtrue}{true}\newboolean{vbfalse}\setboolean{vbfalse}{false}'
            r'\newlength{\vlen}\vlen=2cm\relax '
            r'\begin{document}')
TRUE_ATOMS = [r'\equal{a}{a}', r'\isodd{3}', r'\boolean{vbtrue}', r'\isundefined{\vundefd}', r'\lengthtest{1cm<2cm}',
              r'\lengthtest{10mm=1cm}', r'\equal{\vnone}{1}', r'\isodd{\value{cthree}}', r'\lengthtest{\vlen>1cm}']
FALSE_ATOMS = [r'\equal{a}{b}', r'\isodd{4}', r'\boolean{vbfalse}', r'\isundefined{\vnone}', r'\lengthtest{2in<1cm}', r'\lengthtest{1pc>12pt}', r'\lengthtest{\vlen>\vlen}', r'\lengthtest{2pt<2pt}',
               r'\lengthtest{1pt=1bp}', r'\equal{\vntwo}{1}', r'\isodd{\value{ctwo}}', r'\lengthtest{\vlen<28pt}']
NUMS = {'1': ['1', r'\value{cone}', r'\vnone', '01'], '2': ['2', r'\value{ctwo}', r'\vntwo', '+2'],
        '3': ['3', r'\value{cthree}', r'\vnthree', '3']}
OPS = {'and': [r'\and', r'\AND'], 'or': [r'\or', r'\OR'], 'not': [r'\not', r'\NOT'], '(': [r'\('], ')': [r'\)']}


def concretise(toks, salt):
    rnd = random.Random(salt)
    out = []
    for t in toks:
        if t == 'T':
            s = rnd.choice(TRUE_ATOMS)
        elif t == 'F':
            s = rnd.choice(FALSE_ATOMS)
        elif t in NUMS:
            s = rnd.choice(NUMS[t])
        elif t in OPS:
            s = rnd.choice(OPS[t])
        else:
            s = t
        out.append(s)
    # control words need a delimiter before a letter/digit; blanks elsewhere are optional
    text = ''
    for i, s in enumerate(out):
        text += s
        nxt = out[i + 1] if i + 1 < len(out) else ''
        if s[-1:].isalpha() and s.startswith('\\') and nxt[:1].isalnum():
            text += ' '
        elif s[-1:].isalpha() and s.startswith('\\'):
            text += rnd.choice([' ', ''])
        else:
            text += rnd.choice([' ', '', ''])
    return text


def run_tests(tests):
    """tests: list of test texts.  Returns list of ('Y'|'N'|'ERR:..', cy, cn) per test; a batch is parsed in
    one document, and re-run one by one if it raises."""
    from plasTeX.TeX import TeX
    from plasTeX import TeXDocument

    def parse(body):
        d = TeXDocument()
        t = TeX(d)
        t.input(PREAMBLE + body + r'\end{document}')
        t.parse()
        return d
    body = ''.join(r'\setcounter{cy}{0}\setcounter{cn}{0}[%d:\ifthenelse{%s}{Y\stepcounter{cy}}{N\stepcounter{cn}}:\arabic{cy}\arabic{cn}]'
                   % (i, t) for i, t in enumerate(tests))
    try:
        d = parse(body)
        text = str(d.textContent)
        import re
        res = dict((int(a), (b, int(c), int(e))) for a, b, c, e in re.findall(r'\[(\d+):([YN]*):(\d)(\d)\]', text))
        return [res.get(i, ('MISSING', -1, -1)) for i in range(len(tests))]
    except Exception:
        # leave interpreter-wide switches as a fresh interpreter has them (see C17) before retrying
        from plasTeX.Base.LaTeX.Math import BeginMath, EndMath
        BeginMath.disableMath = EndMath.disableMath = False
        out = []
        for t in tests:
            try:
                d = parse(r'\ifthenelse{%s}{Y\stepcounter{cy}}{N\stepcounter{cn}}' % t)
                out.append((str(d.textContent).strip(), d.context.counters['cy'].value, d.context.counters['cn'].value))
            except Exception as ex:
                BeginMath.disableMath = EndMath.disableMath = False
                out.append(('ERR:%s: %s' % (type(ex).__name__, ex), -1, -1))
        return out


def batch(args):
    items = args      # list of (toks, want, salt)
    tests = [concretise(t, s) for t, w, s in items]
    res = run_tests(tests)
    return list(zip(tests, res))


def spell(e, full):
    k = e[0]
    if k in ('T', 'F'):
        return [k]
    if k == 'cmp':
        return [e[1], e[2], e[3]]
    isbin = lambda x: x[0] in ('and', 'or')
    par = lambda s: ['('] + s + [')']
    if k == 'not':
        return ['not'] + (par(spell(e[1], full)) if isbin(e[1]) or full else spell(e[1], full))
    return ((par(spell(e[1], full)) if full and isbin(e[1]) else spell(e[1], full)) + [k] +
            (par(spell(e[2], full)) if isbin(e[2]) or (full and e[2][0] == 'not') else spell(e[2], full)))


def rand_expr(rnd, depth):
    if depth == 0 or rnd.random() < 0.25:
        return rnd.choice([('T',), ('F',), ('cmp', '1', '<', '2'), ('cmp', '3', '<', '1'), ('cmp', '2', '=', '2'), ('cmp', '1', '>', '3'),
                           ('cmp', '3', '>', '2'), ('cmp', '1', '=', '3')])
    k = rnd.choice(['not', 'and', 'or', 'and', 'or'])
    if k == 'not':
        return ('not', rand_expr(rnd, depth - 1))
    return (k, rand_expr(rnd, depth - 1), rand_expr(rnd, depth - 1))


def run(chk):
    tier, seed = chk.tier, chk.seed
    notprefix = 'FALSE' if os.environ.get('C19_ASBUILT') else 'TRUE'
    chk.rule = ('expression trees enumerated by TLC up to Depth with two parenthesisation styles; non-trivial = at least one '
                'operator; distinct by token list; random deeper trees (depth <= 5) for trace validation')
    chk.assumptions = ['atoms and numbers are concretised by harness/drivers/c19.py (random choice among equivalent spellings, seeded)',
                       'NF-NUM: numbers inside tests are read by the evaluator itself; atom arguments are brace-delimited']
    depth = 2
    res = tlc.run('IfThen', cfg_text=CFG % (depth, notprefix), timeout=3000)
    chk.add_tlc(res, 'mc+emit(Depth=%d)' % depth)
    if not res.ok:
        chk.violation('design:' + ','.join(res.violated or ['error']),
                      'TLC found a counterexample in the evaluator design: %s\n%s' % (res.violated, res.trace_text[:2500]))
    resl = tlc.run('IfThen', cfg_text=CFG_LIVE % notprefix, timeout=3000)
    chk.add_tlc(resl, 'liveness(Depth=1)')
    if not resl.ok:
        chk.violation('design:Terminates', 'the evaluator machine does not terminate: %s' % resl.violated)
    behs = res.beh
    if not behs:
        raise MachineryError('C19: no behaviours emitted')
    if tier == 'quick':
        # every tree of depth <= 1 and every tree of depth 2 that contains a \not; the remaining depth-2 trees sampled
        rnd0 = random.Random(seed)
        keep = [b for b in behs if len(b['toks']) <= 7 or 'not' in b['toks'] or rnd0.random() < 0.3]
        chk.extra['replayed_fraction'] = '%d of %d enumerated' % (len(keep), len(behs))
        behs = keep
    items = [(b['toks'], b, i + seed * 7919) for i, b in enumerate(behs)]
    chunks = [items[i:i + 60] for i in range(0, len(items), 60)]
    results = pmap(batch, chunks)
    for chunk, out in zip(chunks, results):
        for (toks, b, salt), (text, (val, cy, cn)) in zip(chunk, out):
            nt = any(t in ('and', 'or', 'not') for t in toks)
            chk.case(toks, nt, {'tokens': toks, 'latex': text, 'value': b['denote']} if len(toks) > 6 else None)
            chk.traces += 1
            want = 'Y' if b['denote'] else 'N'
            if not b['ok']:
                chk.violation('model-error', 'machine underflows on %s' % toks, b)
            if val != want or (cy, cn) != ((1, 0) if want == 'Y' else (0, 1)):
                hasnot = 'not' in toks
                kind = 'raise' if val.startswith('ERR') else 'value'
                chk.violation('replay:%s:%s' % (kind, 'not' if hasnot else 'nonot'),
                              '\\ifthenelse{%s} gave %r (then-counter %s, else-counter %s); the expression %s denotes %s'
                              % (text, val, cy, cn, toks, b['denote']), {'latex': text, 'tokens': toks})
    chk.exhaustive = True

    # whiledo
    rw = tlc.run('WhileDo', cfg_text=CFG_WHILE, timeout=3000)
    chk.add_tlc(rw, 'whiledo(MaxN=6)')
    if not rw.ok:
        chk.violation('design:whiledo:' + ','.join(rw.violated or ['error']), 'WhileDo design: %s\n%s' % (rw.violated, rw.trace_text[:2000]))
    for b in rw.beh:
        n, kind = b['n'], b['kind']
        test = {'lt': r'\value{wc}<%d' % n, 'notgt': r'\not\(\value{wc}>%d\) \and \equal{a}{a}' % (n - 1),
                'or': r'\value{wc}<%d \or \equal{a}{b}' % n, 'andnot': r'\value{wc} < %d \and \not \value{wc} = %d' % (n, n),
                'false': r'\equal{a}{b}'}[kind]
        got = whiledo_count(test, b['body'])
        chk.case(['whiledo', kind, n, b['body']], True, {'whiledo': test, 'iterations': b['iterations']} if n == 3 else None)
        chk.traces += 1
        if got != b['iterations']:
            chk.violation('whiledo:%s:%s' % (kind, b['body']), '\\whiledo{%s}{x\\stepcounter{wc}...} (body kind %s) ran %s times, specification %d' % (test, b['body'], got, b['iterations']), test)

    # code -> spec: random deeper trees, validated by TLC on the observed value
    rnd = random.Random(seed + 1)
    n = 400 if tier == 'quick' else 6000
    exprs = [(rand_expr(rnd, rnd.randint(3, 5)), rnd.random() < 0.5) for _ in range(n)]
    items = [(spell(e, f), None, i) for i, (e, f) in enumerate(exprs)]
    chunks = [items[i:i + 60] for i in range(0, len(items), 60)]
    results = pmap(batch, chunks)
    lines = []
    for chunk, out in zip(chunks, results):
        for (toks, _, salt), (text, (val, cy, cn)) in zip(chunk, out):
            lines.append({'toks': toks, 'obs': val[:1] if not val.startswith('ERR') else 'E', 'latex': text, 'raw': val, 'cy': cy, 'cn': cn})
    wd = tlc.make_workdir()
    try:
        tf = os.path.join(wd, 'trace.ndjson')
        with open(tf, 'w') as f:
            for ln in lines:
                f.write(json.dumps({'toks': ln['toks'], 'obs': ln['obs']}) + '\n')
        rt = tlc.run('IfThenTrace', cfg_text='CONSTANTS\n  Depth = 0\n  FullParens = {FALSE}\n  NotPrefix = %s\nINIT TraceInit\nNEXT TraceNext\n'
                     'INVARIANT NeverUnderflows\nINVARIANT OneValue\nINVARIANT ObservedIsMachine\nCHECK_DEADLOCK FALSE\n' % notprefix,
                     workdir=wd, env={'TRACE_FILE': tf}, timeout=3000)
    finally:
        shutil.rmtree(wd, ignore_errors=True)
    chk.add_tlc(rt, 'trace-validation(%d random tests)' % len(lines))
    chk.traces += len(lines)
    for ln in lines:
        chk.case(ln['toks'], True)
        if ln['obs'] == 'E' or (ln['cy'], ln['cn']) not in ((1, 0), (0, 1)):
            chk.violation('trace:raise' if ln['obs'] == 'E' else 'trace:both-branches',
                          '\\ifthenelse{%s} gave %r (then-counter %s, else-counter %s)' % (ln['latex'], ln['raw'], ln['cy'], ln['cn']), ln)
    if rt.violated:
        chk.violation('trace-invariant:' + ','.join(rt.violated),
                      'a recorded evaluation disagrees with the machine: %s\n%s' % (rt.violated, rt.trace_text[:2500]))


BODIES = {'plain': r'x\stepcounter{wc}',
          'ifthenelse': r'x\ifthenelse{\(\isodd{\value{wc}}\)}{o}{e}\stepcounter{wc}',
          'nested': r'x\setcounter{wd}{0}\whiledo{\(\value{wd}<2\)}{i\stepcounter{wd}}\stepcounter{wc}'}


def whiledo_count(test, body='plain'):
    from plasTeX.TeX import TeX
    from plasTeX import TeXDocument
    d = TeXDocument()
    t = TeX(d)
    t.input(PREAMBLE + r'\newcounter{wd}\setcounter{wc}{0}[\whiledo{%s}{%s}]' % (test, BODIES[body]) + r'\end{document}')
    try:
        t.parse()
    except Exception as ex:
        from plasTeX.Base.LaTeX.Math import BeginMath, EndMath
        BeginMath.disableMath = EndMath.disableMath = False
        return 'ERR:%s' % type(ex).__name__
    s = str(d.textContent)
    return s[s.index('[') + 1:s.index(']')].count('x')

"""C08 -- counters and automatic numbers follow LaTeX's numbering rules.

spec -> code : TLC explores every history of numbered constructs and counter manipulations up to a length (article and
               book, several numbering depths) in Counters.tla, checks the machine (plasTeX's counters with their reset
               hierarchy, per-construct stepping and capture) against LaTeX's rules (NumbersAreLaTeX, TransitiveReset) and
               prints one history per distinct state; each is concretised as a LaTeX document, parsed by the real engine, and
               the printed number of every numbered object (in document order) compared.
               NumberFormats.tla: roman numerals 1..4999 checked against the subtractive grammar by TLC and tabulated; the
               table is compared with Counter.Roman/roman/Alph/alph/arabic for every value.
"""
import os
import re

from .. import tlc
from ..core import MachineryError, pmap

CFG = '''CONSTANTS
  Classes = {"article", "book"}
  NumDepths = {%s}
  MaxEvents = %d
  SetResets = %s
  NewCounterWithin = TRUE
INIT Init
NEXT Next
VIEW view
CHECK_DEADLOCK FALSE
INVARIANT NumbersAreLaTeX
PROPERTY TransitiveReset
INVARIANT EmitState
'''
CFG_FMT = '''CONSTANTS
  MaxN = 4999
  Block = 500
INIT Init
NEXT Next
CHECK_DEADLOCK FALSE
INVARIANT RomanIsStandard
INVARIANT Emit
'''

SECNAMES = ['chapter', 'section', 'subsection', 'subsubsection']


def concretise(beh):
    out = [r'\documentclass{%s}' % beh['cls'], r'\newtheorem{tha}{Theorem}', r'\newtheorem{ths}[tha]{Lemma}',
           r'\newtheorem{thw}{Proposition}[section]', r'\newcounter{ucw}[section]', r'\begin{document}']
    k = 0
    for e in beh['h']:
        k += 1
        w = 'w%d' % k
        kind = e['k']
        if kind == 'sec':
            out.append('\\%s%s{T%s}' % (SECNAMES[e['a']], '*' if e['b'] else '', w))
        elif kind == 'eq':
            out.append(r'\begin{equation}x=%d\end{equation}' % k)
        elif kind == 'eqnarray':
            out.append(r'\begin{eqnarray}a&=&b%s\\ c&=&d%s\end{eqnarray}' % (r'\nonumber' if e['a'] else '', r'\nonumber' if e['b'] else ''))
        elif kind == 'declare':
            out.append(r'\newcounter{ucl}[section]')
        elif kind == 'ucl':
            out.append(r'\stepcounter{ucl}\emph{UL\arabic{ucl};}')
        elif kind == 'uc':
            out.append(r'\stepcounter{ucw}\emph{UC\arabic{ucw};}')
        elif kind == 'fig':
            out.append(r'\begin{figure}F\caption{C%s}\end{figure}' % w)
        elif kind == 'tab':
            out.append(r'\begin{table}T\caption{C%s}\end{table}' % w)
        elif kind == 'thm':
            env = {'own': 'tha', 'shared': 'ths', 'within': 'thw'}[e['c']]
            out.append(r'\begin{%s}%s\end{%s}' % (env, w, env))
        elif kind == 'begin':
            out.append(r'\begin{%s}' % e['c'])
            out.append(('ENDSTACK', e['c']))
        elif kind == 'item':
            out.append(r'\item %s' % w)
        elif kind == 'end':
            # find the innermost open list
            for j in range(len(out) - 1, -1, -1):
                if isinstance(out[j], tuple):
                    name = out[j][1]
                    out[j] = ''
                    out.append(r'\end{%s}' % name)
                    break
        elif kind == 'appendix':
            out.append(r'\appendix')
        elif kind == 'set':
            out.append(r'\setcounter{%s}{%d}' % (e['c'], e['a']))
        elif kind == 'add':
            out.append(r'\addtocounter{%s}{%d}' % (e['c'], e['a']))
        elif kind == 'step':
            out.append(r'\stepcounter{%s}' % e['c'])
        out.append('\n')
    out.append(r'\end{document}')
    return ''.join(x for x in out if isinstance(x, str))


def render_num(num):
    if not num:
        return None
    return '.'.join(str(c['n']) if c['f'] == '1' else (chr(64 + c['n']) if 1 <= c['n'] <= 26 else '?') for c in num)


def project(doc):
    """numbered objects in document order: (kind, printed number or None)"""
    from plasTeX.Base.LaTeX.Arrays import Array
    out = []

    def txt(ref):
        if ref is None:
            return None
        s = str(ref.textContent) if hasattr(ref, 'textContent') else str(ref)
        return s

    def walk(node):
        name = getattr(node, 'nodeName', None)
        if name in SECNAMES:
            out.append(('sec', txt(node.ref)))
        elif name == 'equation':
            out.append(('eq', txt(node.ref)))
        elif name == 'eqnarray':
            for row in node.childNodes:
                if isinstance(row, Array.ArrayRow):
                    out.append(('row', txt(row.ref)))
            return
        elif name == 'caption':
            par = node.parentNode
            while par is not None and getattr(par, 'nodeName', None) not in ('figure', 'table'):
                par = par.parentNode
            out.append(('fig' if par is not None and par.nodeName == 'figure' else 'tab', txt(node.ref)))
        elif name == 'thmenv':
            out.append(('thm', txt(node.ref)))
        elif name == 'emph':
            m = re.search(r'U([CL])(\d+);', str(node.textContent))
            if m:
                out.append(('uc' if m.group(1) == 'C' else 'ucl', m.group(2)))
        elif name == 'item':
            out.append(('item', str(node.position)))
        # arguments (titles) hold no numbered objects in generated documents
        for c in (node.childNodes if node.hasChildNodes() else []):
            if getattr(c, 'nodeType', None) == c.ELEMENT_NODE or getattr(c, 'nodeType', None) == 11:
                walk(c)
    walk(doc)
    return out


def replay_one(beh):
    from plasTeX.TeX import TeX
    from plasTeX import TeXDocument
    src = concretise(beh)
    d = TeXDocument()
    d.config['document']['sec-num-depth'] = beh['numdepth']
    t = TeX(d)
    t.input(src)
    try:
        t.parse()
    except Exception as ex:
        return 'raise', 'document raised %s: %s\n%s' % (type(ex).__name__, ex, src)
    got = project(d)
    want = [(p['k'], render_num(p['num'])) for p in beh['printed']]
    if got != want:
        k = next((i for i in range(min(len(got), len(want))) if got[i] != want[i]), min(len(got), len(want)))
        kinds = sorted(set(e['k'] for e in beh['h'] if e['k'] in ('set', 'add', 'step', 'appendix', 'eqnarray')))
        return 'numbers:%s:%s' % (want[k][0] if k < len(want) else 'extra', '+'.join(kinds)), \
            'object %d is numbered %s, LaTeX\'s rules give %s (all: %s vs %s) in\n%s' % (
                k + 1, got[k] if k < len(got) else 'missing', want[k] if k < len(want) else 'none', got, want, src)
    return 'ok', ''


def run(chk):
    tier = chk.tier
    chk.rule = ('histories of numbered constructs (sections of 4 levels starred or not, equations, eqnarray rows with \\nonumber patterns, '
                'figure/table captions, three kinds of theorem, nested lists and items, \\appendix, \\setcounter/\\addtocounter/\\stepcounter) '
                'up to MaxEvents for article and book and several numbering depths; one history per distinct state; non-trivial = at '
                'least two numbered objects and a reset, manipulation or nesting; distinct by history')
    chk.assumptions = ['after \\appendix the next numbered object is a top-level unit (a number printed with a zero alphabetic '
                       'component is outside the representation\'s range)',
                       'page numbers, \\numberwithin and language-specific formats are out of scope']
    maxev = 3
    nd = '2' if tier == 'quick' else '1, 2, 3'
    if tier != 'quick':
        # one event more: invariants only (one printed behaviour per state at this bound exhausts the memory of the harness)
        r4 = tlc.run('Counters', cfg_text=(CFG % ('2', 4, 'TRUE' if os.environ.get('C08_ASBUILT') else 'FALSE')).replace('INVARIANT EmitState\n', ''),
                     timeout=3400, heap='12g', want_beh=False)
        chk.add_tlc(r4, 'mc(MaxEvents=4)')
        if not r4.ok:
            chk.violation('design:' + ','.join(r4.violated or ['error']),
                          'TLC found a counterexample in the Counters design: %s\n%s' % (r4.violated, r4.trace_text[:2500]))
    res = tlc.run('Counters', cfg_text=CFG % (nd, maxev, 'TRUE' if os.environ.get('C08_ASBUILT') else 'FALSE'), timeout=3400, heap='12g')
    chk.add_tlc(res, 'mc+states(MaxEvents=%d)' % maxev)
    if not res.ok:
        chk.violation('design:' + ','.join(res.violated or ['error']),
                      'TLC found a counterexample in the Counters design: %s\n%s' % (res.violated, res.trace_text[:2500]))
    if not res.beh:
        raise MachineryError('C08: no behaviours emitted')
    behs = [b for b in res.beh if b['h']]
    # long histories by simulation (same module, same invariants)
    nsim, dsim = (1500, 10) if tier == 'quick' else (20000, 14)
    rs = tlc.run('Counters', cfg_text=(CFG % (nd, dsim, 'TRUE' if os.environ.get('C08_ASBUILT') else 'FALSE')).replace('VIEW view\n', ''),
                 simulate=nsim, depth=dsim + 1, seed=chk.seed + 1, timeout=3400, heap='8g', workers=4)
    chk.add_tlc(rs, 'simulate(num=%d,depth=%d)' % (nsim, dsim))
    if rs.violated:
        chk.violation('design:sim:' + ','.join(rs.violated), 'TLC simulation found a counterexample: %s\n%s' % (rs.violated, rs.trace_text[:2500]))
    seenh = set()
    for b in rs.beh:
        key = repr((b['cls'], b['numdepth'], b['h']))
        if b['h'] and len(b['h']) >= maxev and key not in seenh:
            seenh.add(key)
            behs.append(b)
    results = pmap(replay_one, behs, chunksize=100)
    for beh, (kind, msg) in zip(behs, results):
        ks = [e['k'] for e in beh['h']]
        nt = len(beh['printed']) >= 2 and any(k in ('set', 'add', 'step', 'appendix', 'begin', 'eqnarray') or (k == 'sec') for k in ks)
        chk.case([beh['cls'], beh['numdepth'], beh['h']], nt,
                 {'class': beh['cls'], 'document': concretise(beh)[60:400], 'numbers': [render_num(p['num']) for p in beh['printed']]}
                 if nt and len(ks) >= maxev and len(chk.samples) < 4 else None)
        chk.traces += 1
        if kind != 'ok':
            chk.violation('replay:' + kind, msg, beh)
    chk.exhaustive = True
    chk.extra['bounds'] = {'MaxEvents': maxev, 'numdepths': nd, 'classes': ['article', 'book']}

    # number formats
    rf = tlc.run('NumberFormats', cfg_text=CFG_FMT, timeout=3400, workers=1)
    chk.add_tlc(rf, 'number-formats(1..4999)')
    if not rf.ok:
        chk.violation('design:formats:' + ','.join(rf.violated or ['error']), 'NumberFormats: %s\n%s' % (rf.violated, rf.trace_text[:1500]))
    from plasTeX import Counter
    from plasTeX.Context import Context
    ctx = Context()
    c = Counter(ctx, 'vc')
    seen = 0
    for b in rf.beh:
        for i, r in enumerate(b['roman']):
            nval = b['from'] + i
            c.value = nval
            seen += 1
            chk.case(['roman', nval], nval > 3)
            want = ''.join(r)
            if c.Roman != want or c.roman != want.lower() or c.arabic != str(nval):
                chk.violation('formats:roman', 'value %d: Roman=%r roman=%r arabic=%r, standard %r' % (nval, c.Roman, c.roman, c.arabic, want), nval)
        for i, a in enumerate(b['alph']):
            c.value = i + 1
            chk.case(['alph', i + 1], True)
            if c.Alph != a or c.alph != a.lower():
                chk.violation('formats:alph', 'value %d: Alph=%r alph=%r, standard %r' % (i + 1, c.Alph, c.alph, a), i + 1)
    if seen != 4999:
        raise MachineryError('C08: roman table incomplete (%d values)' % seen)
    chk.traces += 1


def replay_case(payload):
    """re-execute one recorded history of numbered constructs against the current tree"""
    kind, msg = replay_one(payload)
    return kind == 'ok', msg

"""C07 -- parsing loses, duplicates or reorders no text and yields a well-formed tree.

spec -> code : TLC generates every document of the bounded NF-DOC grammar of Digest.tla as the stream of levelled, depth-stamped
               items the digest stage sees, runs the digest protocol on it and checks DigestBuildsIntended / OnceInOrder /
               SectionsNestByLevel / NeverStuck; every generated document is printed as LaTeX (marker words, titles, \\textbf /
               \\emph / \\footnote / \\mbox arguments, \\verb and math material carrying quote/dash sequences) and parsed by the real
               engine.  Compared: for every marker word the chain of containers (kind + ordinal) from the document down to it
               (paragraph nodes transparent), and the depth-first order of all words (arguments before content).
               Checked on every real tree: each child's parentNode is the node listing it, sections contain only paragraphs and
               strictly deeper sections, no paragraph directly inside a paragraph, typographic substitutions applied in text
               but not in \\verb or math.
paragraphs   : Paragraphs.tla transcribes Macro.paragraphs (machine) against the cutting rule; TLC checks MachineIsRule and its consequences for
               every content sequence of up to 6 / 7 items over {word, white space, \\par, block element, section-level element} x force,
               and each sequence is rebuilt from real nodes and grouped by the real paragraphs().
code -> spec : the documents under unittests/ (sources, benchmarks) are parsed and the tree clauses checked on them (thorough).
"""
import glob
import os
import re

from .. import tlc
from ..core import MachineryError, pmap, REPO

CFG = '''CONSTANTS
  MaxItems = %d
  MaxDepth = %d
INIT Init
NEXT Next
CHECK_DEADLOCK FALSE
INVARIANT DigestBuildsIntended
INVARIANT OnceInOrder
INVARIANT SectionsNestByLevel
INVARIANT NeverStuck
INVARIANT Emit
'''
SEC = {1: 'section', 2: 'subsection', 3: 'subsubsection'}
SECDEEP = {1: 'subsubsection', 2: 'paragraph', 3: 'subparagraph'}     # the same three levels spelled with the deepest units
SECBOOK = {1: 'chapter', 2: 'section', 3: 'subsection'}
DECLS = ['bfseries', 'itshape']
CMDS = ['textbf', 'emph', 'footnote', 'mbox', 'verb', 'math']


def concretise(stream, salt):
    book = salt % 2 == 1
    out = [r'\documentclass{%s}\begin{document}' % ('book' if book else 'article')]
    for i, it in enumerate(stream):
        n = i + 1
        k = it['k']
        if k == 'word':
            out.append('w%d%s ' % (n, "''" if (n + salt) % 5 == 0 else ''))
        elif k == 'cmd':
            c = CMDS[(n + salt) % len(CMDS)]
            if c == 'verb':
                out.append(r'\verb|w%da--w%db| ' % (n, n))
            elif c == 'math':
                out.append((r'$w%da{--}w%db$ ' if (n + salt) % 2 else r'$w%da--w%db$ ') % (n, n))     # a bare group inside mathematics
            else:
                out.append(r'\%s{w%da--w%db} ' % (c, n, n))
        elif k == 'par':
            out.append('\n\n' if (n + salt) % 2 else r'\par ')
        elif k == 'sec':
            out.append('\\%s%s{T w%dt}' % ((SECBOOK if book else (SECDEEP if salt % 6 == 2 else SEC))[it['lvl']], '*' if (n + salt) % 4 == 0 else '', n))
        elif k == 'decl':
            out.append('\\%s ' % DECLS[(n + salt) % len(DECLS)])
        elif k == 'scmd':
            out.append('\\printindex ')
        elif k == 'envb':
            out.append(r'\begin{%s}' % it['ty'])
        elif k == 'enve':
            out.append(r'\end{%s}' % it['ty'])
        elif k == 'item':
            out.append(r'\item ')
        elif k == 'grpb':
            out.append('{' if (n + salt) % 3 else r'\begingroup ')
        elif k == 'grpe':
            # match the opener's spelling
            depth = 0
            for j in range(i - 1, -1, -1):
                if stream[j]['k'] == 'grpe':
                    depth += 1
                elif stream[j]['k'] == 'grpb':
                    if depth == 0:
                        out.append('}' if (j + 1 + salt) % 3 else r'\endgroup ')
                        break
                    depth -= 1
    out.append(r'\end{document}')
    return ''.join(out)


def kind_of(node):
    name = getattr(node, 'nodeName', None)
    if name in ('chapter', 'section', 'subsection', 'subsubsection', 'paragraph', 'subparagraph'):
        return 'sec'
    if name in DECLS:
        return 'decl'
    if name in ('quote', 'itemize'):
        return 'envb'
    if name == 'item':
        return 'item'
    if name in ('bgroup', 'begingroup'):
        if getattr(getattr(node, 'parentNode', None), 'nodeName', None) == 'math':
            return None         # the bare group the concretiser puts inside mathematics is not an item of the grammar
        return 'grpb'
    if name in ('textbf', 'emph', 'footnote', 'mbox', 'verb', 'math'):
        return 'cmd'
    return None


def analyse(doc):
    """returns (words in DFS order with container chains, list of tree-clause problems)"""
    problems = []
    counts = {}
    words = []

    def text_of(node):
        return str(node)

    def walk(node, chain, inpar, insec):
        name = getattr(node, 'nodeName', None)
        k = kind_of(node)
        mychain = chain
        if k:
            counts[k] = counts.get(k, 0) + 1
            mychain = chain + [(k, counts[k])]
        attrs = getattr(node, 'attributes', None) or {}
        for key, val in attrs.items():
            if key == 'self' or val is None or not hasattr(val, 'childNodes'):
                continue
            scan(val.childNodes, node, mychain, inpar, insec, True)
        scan(node.childNodes if node.hasChildNodes() else [], node, mychain, inpar, insec, False)

    def scan(children, parent, chain, inpar, insec, viaattr):
        # adjacent text nodes are read as one run (text that was never grouped into a paragraph stays one
        # node per character)
        buf = []

        def flush():
            if buf:
                for m in re.finditer(r'w(\d+)([abt]?)', ''.join(buf)):
                    words.append((int(m.group(1)), m.group(2), tuple(chain)))
                del buf[:]
        for c in children:
            if c.nodeType == c.TEXT_NODE:
                buf.append(str(c))
            else:
                flush()
                visit(c, parent, chain, inpar, insec, viaattr)
        flush()

    def visit(c, parent, chain, inpar, insec, viaattr):
        name = getattr(c, 'nodeName', None)
        if not viaattr and c.parentNode is not parent:
            problems.append('parent link of <%s> does not name the <%s> that lists it' % (name, getattr(parent, 'nodeName', None)))
        pname = getattr(parent, 'nodeName', None)
        if name == 'par' and pname == 'par':
            problems.append('paragraph directly inside a paragraph')
        if pname == 'par' and kind_of(c) == 'sec':
            problems.append('sectioning unit <%s> inside a paragraph' % name)
        if kind_of(parent) == 'sec' and not viaattr:
            if not (name == 'par' or (kind_of(c) == 'sec' and c.level > parent.level)):
                problems.append('<%s> is a direct child of sectioning unit <%s>' % (name, pname))
        walk(c, chain, inpar or name == 'par', insec)
    walk(doc, [], False, False)
    return words, problems


def spec_chains(stream, parent):
    """per word: (word number, suffix) -> container chain from the spec's parent function"""
    ordinal = {}
    counts = {}
    for i, it in enumerate(stream):
        k = it['k']
        if k in ('sec', 'envb', 'item', 'grpb', 'cmd', 'decl'):
            counts[k] = counts.get(k, 0) + 1
            ordinal[i + 1] = (k, counts[k])

    def chain(i):
        out = []
        while i:
            if i in ordinal:
                out.append(ordinal[i])
            i = parent[i - 1]
        return tuple(reversed(out))
    want = []
    for i, it in enumerate(stream):
        n = i + 1
        if it['k'] == 'word':
            want.append((n, '', chain(parent[i])))
        elif it['k'] == 'cmd':
            want.append((n, 'a', chain(n)))
            want.append((n, 'b', chain(n)))
        elif it['k'] == 'sec':
            want.append((n, 't', chain(n)))
    return want


def check_subst(doc, src):
    """typographic substitutions: applied in text arguments, never in \\verb or math"""
    out = []
    text = str(doc.textContent)
    for m in re.finditer(r'\\(textbf|emph|footnote|mbox)\{w(\d+)a--', src):
        n = m.group(2)
        if ('w%sa\u2013w%sb' % (n, n)) not in text:
            out.append('-- in the argument of \\%s was not turned into an en dash (w%sa--w%sb)' % (m.group(1), n, n))
    for m in re.finditer(r'(\\verb\||\$)w(\d+)a\{?--', src):
        n = m.group(2)
        if ('w%sa--w%sb' % (n, n)) not in text:
            out.append('-- inside %s material was changed (w%sa--w%sb)' % ('verbatim' if m.group(1).startswith('\\') else 'math', n, n))
    for m in re.finditer(r"w(\d+)'' ", src):
        if ('w%s\u201d' % m.group(1)) not in text:
            out.append("'' after w%s in running text was not turned into a closing quote" % m.group(1))
    return out


CFG_PAR = '''CONSTANTS
  MaxItems = %d
  ContinueAfterSection = %s
INIT Init
NEXT Next
CHECK_DEADLOCK FALSE
INVARIANT MachineIsRule
INVARIANT EveryWordInOneParagraph
INVARIANT NoEmptyParagraph
INVARIANT BlockAlone
INVARIANT Emit
'''


def replay_paragraphs(beh):
    """Paragraphs.tla -> Macro.paragraphs on real nodes: a container holding text, white space, \\par elements, a block-level
    element and a section-level element without content, in the order of the behaviour"""
    from plasTeX import TeXDocument, Node
    d = TeXDocument()
    box = d.createElement('center')
    n = 0
    for k in beh['items'] or []:
        n += 1
        if k == 't':
            box.append(d.createTextNode('w%d' % n))
        elif k == 'w':
            box.append(d.createTextNode(' '))
        elif k == 'p':
            box.append(d.createElement('par'))
        elif k == 'b':
            e = d.createElement('quote')
            e.blockType = True
            box.append(e)
        elif k == 's':
            box.append(d.createElement('printindex'))
    try:
        box.paragraphs(force=beh['force'])
    except Exception as ex:
        return 'raise', 'paragraphs() on %s raised %s: %s' % (beh['items'], type(ex).__name__, ex)

    def kinds(node):
        out = []
        for c in node.childNodes:
            if c.nodeType == Node.TEXT_NODE:
                # normalize() merges neighbours: read the words / white space back
                for m in re.finditer(r'w\d+|\s+', str(c)):
                    out.append('t' if m.group(0).startswith('w') else 'w')
            elif c.nodeName == 'quote':
                out.append('b')
            elif c.nodeName == 'printindex':
                out.append('s')
            elif c.nodeName == 'par':
                out.append('p')
            else:
                out.append('?' + str(c.nodeName))
        return out
    got = []
    for c in box.childNodes:
        if c.nodeType != Node.TEXT_NODE and c.nodeName == 'par' and (beh['force'] or 'p' in (beh['items'] or [])):
            got.append({'k': 'par', 'c': kinds(c)})
        else:
            for k in kinds_of_one(c, Node):
                got.append({'k': k, 'c': []})
    want = [{'k': r['k'], 'c': list(r['c'] or [])} for r in (beh['result'] or [])]
    # white space inside a paragraph is merged by normalize(): compare with runs of "w" collapsed
    def squeeze(seq):
        out = []
        for x in seq:
            if x == 'w' and out and out[-1] == 'w':
                continue
            out.append(x)
        return out
    g = [{'k': x['k'], 'c': squeeze(x['c'])} for x in got]
    w = [{'k': x['k'], 'c': squeeze(x['c'])} for x in want]
    # outside paragraphs adjacent text items are separate nodes or merged alike: collapse runs of the same inline kind
    def flat(seq):
        out = []
        for x in seq:
            if x['k'] == 'w' and out and out[-1]['k'] == 'w':
                continue
            out.append(x)
        return out
    if flat(g) != flat(w):
        kind = 'ungrouped' if any(x['k'] in ('t', 'w') for x in g) and (beh['force'] or 'p' in (beh['items'] or [])) else 'structure'
        return 'paragraphs:' + kind, 'paragraphs(force=%s) on %s gives %s, specification %s' % (beh['force'], beh['items'], g, w)
    return 'ok', ''


def kinds_of_one(c, Node):
    if c.nodeType == Node.TEXT_NODE:
        return ['t' if m.group(0).startswith('w') else 'w' for m in re.finditer(r'w\d+|\s+', str(c))]
    return [{'quote': 'b', 'printindex': 's', 'par': 'p'}.get(c.nodeName, '?' + str(c.nodeName))]


def replay_one(args):
    beh, salt = args
    from plasTeX.TeX import TeX
    from plasTeX import TeXDocument
    src = concretise(beh['stream'], salt)
    d = TeXDocument()
    t = TeX(d)
    t.input(src)
    try:
        t.parse()
    except Exception as ex:
        return 'raise', 'document raised %s: %s\n%s' % (type(ex).__name__, ex, src)
    words, problems = analyse(d)
    want = spec_chains(beh['stream'], beh['parent'])
    got = [(n, s, ch) for n, s, ch in words]
    if [(n, s) for n, s, _ in got] != [(n, s) for n, s, _ in want]:
        gw, ww = [(n, s) for n, s, _ in got], [(n, s) for n, s, _ in want]
        missing = [x for x in ww if x not in gw]
        dup = [x for x in gw if gw.count(x) > 1]
        kind = 'lost' if missing else 'dup' if dup else 'order'
        return 'words:' + kind, 'words read depth-first are %s, written %s (missing %s, repeated %s) in\n%s' % (gw, ww, missing, dup[:3], src)
    for (n, s, ch), (_, _, wch) in zip(got, want):
        if ch != wch:
            return 'container', 'word w%d%s sits in %s, the document puts it in %s, in\n%s' % (n, s, list(ch), list(wch), src)
    if problems:
        return 'tree:' + problems[0].split(' ')[0], '%s in\n%s' % ('; '.join(problems[:3]), src)
    sub = check_subst(d, src)
    if sub:
        return 'charsub', '%s in\n%s' % ('; '.join(sub[:3]), src)
    return 'ok', ''


def check_file(path):
    from plasTeX.TeX import TeX
    from plasTeX import TeXDocument
    import signal
    d = TeXDocument()
    try:
        signal.alarm(60)
        t = TeX(d, file=path)
        t.parse()
        signal.alarm(0)
    except BaseException as ex:
        signal.alarm(0)
        return path, None, 'parse: %s' % type(ex).__name__
    words, problems = analyse(d)
    problems = [p for p in problems if p.startswith('parent link') or p.startswith('paragraph directly')]
    return path, problems, None


def run(chk):
    tier, seed = chk.tier, chk.seed
    chk.rule = ('documents: every stream of at most MaxItems items of the grammar (nesting <= MaxDepth); non-trivial = contains a '
                'container (section, environment, item, group) and at least two words; distinct by stream')
    chk.assumptions = ['NF-DOC: environments closed, groups balanced, sectioning commands outside groups and environments',
                       'paragraph nodes are transparent in the specification; the paragraph clauses are checked by the harness on the real tree',
                       'the oracle for containment is the author\'s view recorded by the generator (rule layer of Digest.tla)']
    maxitems, maxdepth = (6, 3) if tier == 'quick' else (7, 4)
    res = tlc.run('Digest', cfg_text=CFG % (maxitems, maxdepth), timeout=3400, heap='12g')
    chk.add_tlc(res, 'gen+digest(MaxItems=%d,MaxDepth=%d)' % (maxitems, maxdepth))
    if not res.ok:
        chk.violation('design:' + ','.join(res.violated or ['error']),
                      'TLC found a counterexample in the digest protocol: %s\n%s' % (res.violated, res.trace_text[:2500]))
    if not res.beh:
        raise MachineryError('C07: no documents emitted')
    behs = res.beh
    if tier == 'quick' and len(behs) > 25000:
        import random
        rnd = random.Random(seed)
        small = [b for b in behs if len(b['stream']) <= 4]
        rest = [b for b in behs if len(b['stream']) > 4]
        behs = small + rnd.sample(rest, 25000 - len(small))
        chk.extra['replayed'] = '%d of %d generated documents (all with <= 4 items, the rest sampled)' % (len(behs), len(res.beh))
    jobs = [(b, seed + i) for i, b in enumerate(behs)]
    results = pmap(replay_one, jobs, chunksize=200)
    for (beh, salt), (kind, msg) in zip(jobs, results):
        ks = [it['k'] for it in beh['stream']]
        nt = any(k in ('sec', 'envb', 'item', 'grpb') for k in ks) and sum(1 for k in ks if k in ('word', 'cmd')) >= 2
        chk.case(beh['stream'], nt, {'document': concretise(beh['stream'], salt)[33:330]} if nt and len(ks) >= maxitems and len(chk.samples) < 5 else None)
        chk.traces += 1
        if kind != 'ok':
            chk.violation('replay:' + kind, msg, {'stream': beh['stream']})
    chk.exhaustive = (len(behs) == len(res.beh))
    chk.extra['bounds'] = {'MaxItems': maxitems, 'MaxDepth': maxdepth}
    # paragraph grouping: Paragraphs.tla against the real Macro.paragraphs
    mp = 6 if tier == 'quick' else 7
    rp = tlc.run('Paragraphs', cfg_text=CFG_PAR % (mp, 'FALSE' if os.environ.get('C07_ASBUILT') else 'TRUE'), timeout=3400, heap='8g')
    chk.add_tlc(rp, 'paragraphs(MaxItems=%d)' % mp)
    if not rp.ok:
        chk.violation('design:paragraphs:' + ','.join(rp.violated or ['error']), 'Paragraphs.tla: %s\n%s' % (rp.violated, rp.trace_text[:2000]))
    if not rp.beh:
        raise MachineryError('C07: no paragraph behaviours emitted')
    for beh, (kind, msg) in zip(rp.beh, pmap(replay_paragraphs, rp.beh, chunksize=500)):
        its = beh['items'] or []
        chk.case(['par', its, beh['force']], len(set(its)) >= 3)
        chk.traces += 1
        if kind != 'ok':
            chk.violation('replay:' + kind, msg, beh)
    if tier == 'thorough':
        files = sorted(glob.glob(os.path.join(REPO, 'unittests', 'sources', '*.tex')) + glob.glob(os.path.join(REPO, 'unittests', 'benchmarks', '*.tex')))
        outs = pmap(check_file, files, chunksize=1)
        nparsed = 0
        for path, problems, err in outs:
            if err:
                continue
            nparsed += 1
            chk.case(['file', path], True)
            if problems:
                chk.violation('file:tree', '%s: %s' % (os.path.basename(path), '; '.join(problems[:3])), path)
        chk.extra['repository_documents_checked'] = nparsed


def replay_case(payload):
    """re-execute a recorded paragraph-grouping behaviour (document behaviours need the seed of the run: use ./check C07 --seed)"""
    if isinstance(payload, dict) and 'items' in payload:
        kind, msg = replay_paragraphs(payload)
        return kind == 'ok', msg
    return True, 'document behaviours are re-executed by the whole check (seeded)'

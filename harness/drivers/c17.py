"""C17 -- a document's result does not depend on what was processed before it.

spec -> code : Isolation.tla: interpreter-wide state (parameter enable level, math stack, list depth, \\( \\) switch, values held by the
               parameter classes, level of the shared index classes) and documents made of state-touching features (register assignment
               and use, an argument of type `any`, $..$, \\(..\\), a list, \\printindex, document class article/book) with five ways for
               the input to end (normally, inside $, inside a list, by an exception while an argument is read, by an exception elsewhere).
               TLC checks CleanAfterDocument, ResultIndependent and AssignmentsRun over every history of up to MaxDocs documents and
               prints every history with the observations of its last document.  Each history is concretised and run by the real
               engine in ONE freshly forked interpreter; compared: the observations of the last document, the interpreter-wide state
               read from the real classes after every document, and the canonical toXML() of the last document against the same
               document processed alone in a fresh interpreter.
code -> spec : seeded random histories of up to 4 documents x up to 4 features are run the same way; observations and interpreter-wide
               snapshots of every document are validated by TLC against IsolationTrace.tla (verdict names document and field).
rendering    : for a sample of the random histories every document is also rendered (HTML5, varying split level) and the files of the last
               one are compared with those of the same document parsed and rendered alone in a fresh interpreter.
generic      : before and after every document ALL class attributes of all classes defined in plasTeX modules are compared, so that a leak
               through a variable the catalogue does not name is reported with the variable's name.
"""
import json
import os
import random
import re
import sys

from .. import tlc
from ..core import MachineryError, pmap

FEATS = ['assign_parindent', 'assign_tolerance', 'assign_LTleft', 'use_parindent', 'use_tolerance', 'use_LTleft', 'any', 'math', 'pmath', 'list',
         'listinput', 'mathinput', 'section', 'printindex', 'eqstar', 'eqarr', 'defcolor', 'usecolor']
ENDINGS = ['end', 'mathopen', 'listopen', 'boom', 'ifraise']

CFG = '''CONSTANTS
  MaxFeats = %d
  MaxDocs = %d
  AnyEnables = %s
  ParseRestores = %s
  ClassPerDoc = %s
  RegsPerDoc = %s
INIT Init
NEXT Next
CHECK_DEADLOCK FALSE
INVARIANT CleanAfterDocument
INVARIANT ResultIndependent
INVARIANT AssignmentsRun
%s
'''


def source(doc, extra=''):
    cls, feats, ending = doc['cls'], doc['feats'] or [], doc['ending']
    out = ['\\documentclass{%s}\n\\usepackage{ifthen}\\usepackage{makeidx}\\usepackage{longtable}\\usepackage{color}\\makeindex\n\\newwrite\\vw\n%s\\begin{document}\n' % (cls, extra)]
    if cls == 'book':
        out.append('\\chapter{Ch}\n')
    out.append('start w\\index{key}\n\n')
    for i, f in enumerate(feats):
        if f == 'assign_parindent':
            out.append('\\parindent=3pt t%d\n\n' % i)
        elif f == 'assign_tolerance':
            out.append('\\tolerance=777 t%d\n\n' % i)
        elif f == 'assign_LTleft':
            out.append('\\LTleft=7pt t%d\n\n' % i)
        elif f == 'use_LTleft':
            out.append('t%d\\hskip\\LTleft t\n\n' % i)
        elif f == 'eqstar':
            out.append('\\begin{eqnarray*}a&=&b\\\\ c&=&d\\end{eqnarray*}\n\n')
        elif f == 'eqarr':
            out.append('\\begin{eqnarray}a&=&b\\label{ea%d}\\\\ c&=&d\\label{eb%d}\\end{eqnarray}\n\n' % (i, i))
        elif f == 'defcolor':
            out.append('\\definecolor{red}{rgb}{0,0,1}t%d\n\n' % i)
        elif f == 'usecolor':
            out.append('t \\textcolor{red}{Cq%dq} t\n\n' % i)
        elif f == 'listinput':
            out.append('\\begin{enumerate}\\item Lq%dq \\input{vinc} t\\end{enumerate}\n\n' % i)
        elif f == 'mathinput':
            out.append('t $Mq%dq \\input{vinc} $ t\n\n' % i)
        elif f == 'section':
            out.append('\\section{Sq%dq}\nt\n\n' % i)
        elif f == 'use_parindent':
            out.append('t%d\\hskip\\parindent t\n\n' % i)
        elif f == 'use_tolerance':
            out.append('t%d\\hskip\\tolerance sp t\n\n' % i)
        elif f == 'any':
            out.append('t%d \\openout\\vw=vfile t\n\n' % i)
        elif f == 'math':
            out.append('t $Mq%dq$ t\n\n' % i)
        elif f == 'pmath':
            out.append('t \\(Pq%dq\\) t\n\n' % i)
        elif f == 'list':
            out.append('\\begin{enumerate}\\item Lq%dq\\end{enumerate}\n\n' % i)
        elif f == 'printindex':
            out.append('\\printindex\n\n')
    if ending == 'end':
        out.append('\\end{document}\n')
    elif ending == 'mathopen':
        out.append('t $zz ')
    elif ending == 'listopen':
        out.append('\\begin{enumerate}\\item zz ')
    elif ending == 'boom':
        out.append('t \\hskip\\vboom t\n\n\\end{document}\n')
    elif ending == 'ifraise':
        out.append('\\ifthenelse{1<}{a}{b} t\n\n\\end{document}\n')
    return ''.join(out)


# ------------------------------------------------------------------ reading the real interpreter
def wide_snapshot():
    import plasTeX
    import importlib
    MathShift = importlib.import_module('plasTeX.Base.TeX.Primitives').MathShift
    List = importlib.import_module('plasTeX.Base.LaTeX.Lists').List
    M = importlib.import_module('plasTeX.Base.LaTeX.Math')
    BeginMath, EndMath = M.BeginMath, M.EndMath
    P = importlib.import_module('plasTeX.Base.TeX.Parameters')
    I = importlib.import_module('plasTeX.Base.LaTeX.Index')
    B = importlib.import_module('plasTeX.Base.LaTeX.Bibliography')

    def reg(cls, init):
        return 'init' if str(cls.value.source if hasattr(cls.value, 'source') else cls.value) == init else 'v1'
    lv = set([I.printindex.level, I.theindex.level, B.bibliography.level])
    return {'plevel': plasTeX.ParameterCommand._enablelevel, 'enabled': plasTeX.ParameterCommand.enabled,
            'math': len(MathShift.inEnv), 'list': List.depth, 'dmath': bool(BeginMath.disableMath or EndMath.disableMath),
            'regs': {'parindent': reg(P.parindent, INIT['parindent']), 'tolerance': reg(P.tolerance, INIT['tolerance']),
                     'LTleft': reg(importlib.import_module('plasTeX.Packages.longtable').LTleft, INIT['LTleft_glue'])},
            'idx': 'chapter' if lv == set([plasTeX.Command.CHAPTER_LEVEL]) else ('section' if lv == set([plasTeX.Command.SECTION_LEVEL]) else 'mixed')}


INIT = {}


def measure_init():
    import plasTeX
    from plasTeX import TeXDocument
    TeXDocument()
    import importlib
    P = importlib.import_module('plasTeX.Base.TeX.Parameters')
    INIT['parindent'] = str(P.parindent.value.source)
    INIT['tolerance'] = str(P.tolerance.value.source)
    L = importlib.import_module('plasTeX.Packages.longtable')
    from plasTeX import dimen
    INIT['LTleft'] = str(dimen(L.LTleft.value).source)
    INIT['LTleft_glue'] = str(L.LTleft.value.source)


_SIMPLE = (int, float, str, bool, type(None), bytes)


def _freeze(v, depth=0):
    if isinstance(v, _SIMPLE):
        return repr(v)
    if depth > 3:
        return '<deep>'
    if isinstance(v, (list, tuple)):
        return '[' + ','.join(str(_freeze(x, depth + 1)) for x in v) + ']'
    if isinstance(v, (set, frozenset)):
        return '{' + ','.join(sorted(str(_freeze(x, depth + 1)) for x in v)) + '}'
    if isinstance(v, dict):
        return '{' + ','.join(sorted('%s:%s' % (_freeze(k, depth + 1), _freeze(x, depth + 1)) for k, x in v.items())) + '}'
    if isinstance(v, type):
        return '<class %s.%s>' % (v.__module__, v.__qualname__)
    if hasattr(v, 'source') and isinstance(getattr(type(v), 'source', None), property):
        try:
            return '<%s %s>' % (type(v).__name__, v.source)
        except Exception:
            return '<%s>' % type(v).__name__
    return None       # functions, descriptors, arbitrary objects: identity does not matter here


# attributes that are caches by construction: their value is a pure function of the class definition
CACHES = ('@arguments', '@locals', '@hasgenid', '__doc__', '__module__', '__qualname__', '__dict__', '__weakref__', '__annotations__',
          '__firstlineno__', '__static_attributes__')


def class_snapshot():
    """every class attribute of every class defined in a plasTeX module"""
    snap = {}
    seen = set()

    def visit(cls, path):
        if id(cls) in seen:
            return
        seen.add(id(cls))
        for k, v in list(vars(cls).items()):
            if k in CACHES:
                continue
            if isinstance(v, type):
                if v.__module__ == cls.__module__:
                    visit(v, path + '.' + k)
                continue
            f = _freeze(v)
            if f is not None:
                snap[path + '.' + k] = f
    for name, mod in list(sys.modules.items()):
        if mod is None or not name.startswith('plasTeX') or name.startswith('plasTeX._verif'):
            continue
        for k, v in list(vars(mod).items()):
            if isinstance(v, type) and v.__module__ == name:
                visit(v, name + '.' + k)
    return snap


def canon(xml):
    ids = {}

    def r(m):
        ids.setdefault(m.group(0), 'ID%d' % len(ids))
        return ids[m.group(0)]
    return re.sub(r'\ba\d{10}\b', r, xml)


def observe(doc, d):
    """observations of the features of doc from its DOM d"""
    obs = []
    nodes = {}

    def walk(n, anc):
        name = getattr(n, 'nodeName', None)
        if n.nodeType == n.TEXT_NODE:
            return
        if name in ('parindent', 'tolerance', 'LTleft', 'hskip', 'vskip', 'kern', 'printindex', 'section', 'textcolor', 'eqnarray'):
            nodes.setdefault(name, []).append(n)
        # text children may be single characters where normalize() did not run: look at them joined
        joined = ''.join(str(c) if c.nodeType == c.TEXT_NODE else ' ' for c in n.childNodes)
        for m in re.finditer(r'([MPL])q(\d+)q', joined):
            nodes[(m.group(1), int(m.group(2)))] = anc + [name]
        for a in (getattr(n, 'attributes', None) or {}).values():
            if hasattr(a, 'childNodes') and hasattr(a, 'nodeType'):
                walk(a, anc + [name])
        for c in n.childNodes:
            walk(c, anc + [name])
    walk(d, [])
    cnt = {}

    def nth(name):
        i = cnt.get(name, 0)
        cnt[name] = i + 1
        lst = nodes.get(name, [])
        return lst[i] if i < len(lst) else None
    for i, f in enumerate(doc['feats'] or []):
        if f in ('assign_parindent', 'assign_tolerance', 'assign_LTleft'):
            n = nth(f.split('_')[1])
            obs.append('assigned' if n is not None and n.attributes and n.attributes.get('value') is not None else 'notassigned')
        elif f in ('use_parindent', 'use_tolerance', 'use_LTleft'):
            n = nth('hskip')
            v = str(n.attributes['size'].source if hasattr(n.attributes['size'], 'source') else n.attributes['size']) if n is not None and n.attributes.get('size') is not None else '?'
            reg = f.split('_')[1]
            from plasTeX import dimen
            v1 = {'parindent': '3.0pt', 'tolerance': str(dimen('777sp').source), 'LTleft': '7.0pt'}[reg]
            vi = {'parindent': INIT['parindent'], 'tolerance': str(dimen(INIT['tolerance'] + 'sp').source), 'LTleft': INIT['LTleft']}[reg]
            obs.append('init' if v == vi else ('v1' if v == v1 else 'other:' + v))
        elif f in ('any', 'eqstar', 'defcolor'):
            pass
        elif f == 'eqarr':
            n = nth('eqnarray')
            rows = [r for r in (n.childNodes if n is not None else []) if getattr(r, 'nodeName', '') == 'ArrayRow']
            obs.append('lost' if n is None else 'rows%d' % sum(1 for r in rows if r.ref is not None))
        elif f == 'usecolor':
            n = nth('textcolor')
            c = (n.style.get('color') if n is not None else None)
            obs.append('lost' if n is None else ('init' if c == '#FF0000' else ('v1' if c == '#0000FF' else 'other:%s' % c)))
        elif f == 'math':
            a = nodes.get(('M', i))
            obs.append('lost' if a is None else ('math' if 'math' in a else 'text'))
        elif f == 'pmath':
            a = nodes.get(('P', i))
            obs.append('lost' if a is None else ('math' if 'math' in a else 'text'))
        elif f == 'mathinput':
            a = nodes.get(('M', i))
            obs.append('lost' if a is None else ('math' if 'math' in a else 'text'))
        elif f == 'section':
            n = nth('section')
            r = str(n.ref.textContent) if n is not None and n.ref is not None else '?'
            obs.append('chaptered' if re.match(r'^\d+\.\d+$', r) else ('flat' if re.match(r'^\d+$', r) else 'other:' + r))
        elif f in ('list', 'listinput'):
            a = nodes.get(('L', i))
            obs.append('lost' if a is None else ('list' if 'enumerate' in a else 'text'))
        elif f == 'printindex':
            n = nth('printindex')
            import plasTeX
            obs.append('lost' if n is None else ('chapter' if n.level == plasTeX.Command.CHAPTER_LEVEL else ('section' if n.level == plasTeX.Command.SECTION_LEVEL else 'other')))
    return obs


def render_doc(d, variant):
    """render the parsed document d into a scratch directory; returns {file: text with generated ids renumbered}"""
    import shutil
    import tempfile
    import importlib
    from .. import render as R
    tmp = tempfile.mkdtemp(prefix='viso')
    old = os.getcwd()
    os.chdir(tmp)
    try:
        d.userdata['working-dir'] = tmp
        d.userdata['jobname'] = 'doc'
        Rn = importlib.import_module('plasTeX.Renderers.HTML5').Renderer
        Rn().render(d)
        out = {}
        for fn in sorted(os.listdir(tmp)):
            if fn.endswith('.html'):
                out[fn] = open(os.path.join(tmp, fn), encoding='utf-8').read()
        # one renumbering across all files, in file order
        ids = {}

        def r(m):
            ids.setdefault(m.group(0), 'ID%d' % len(ids))
            return ids[m.group(0)]
        return dict((fn, re.sub(r'\ba\d{10}\b', r, t)) for fn, t in sorted(out.items()))
    finally:
        os.chdir(old)
        shutil.rmtree(tmp, ignore_errors=True)


_INC = []


def incdir():
    """a scratch directory holding the file the \\input features read"""
    if not _INC:
        import atexit
        import shutil
        import tempfile
        d = tempfile.mkdtemp(prefix='visoinc')
        with open(os.path.join(d, 'vinc.tex'), 'w') as f:
            f.write('included words\n')
        _INC.append(d)
        atexit.register(shutil.rmtree, d, True)
    return _INC[0]


def run_doc(doc, render=None):
    import plasTeX
    from plasTeX.TeX import TeX
    from plasTeX import TeXDocument, Command

    class vboom(Command):
        def invoke(self, tex):
            raise RuntimeError('boom')
    if render is not None:
        from .. import render as R
        d = TeXDocument(config=R.make_config('HTML5', {('files', 'split-level'): render, ('general', 'copy-theme-extras'): False}))
    else:
        d = TeXDocument()
    d.context.importMacros({'vboom': vboom})
    t = TeX(d)
    t.input(source(doc))
    exc = None
    old = os.getcwd()
    os.chdir(incdir())
    try:
        t.parse()
    except Exception as ex:
        exc = type(ex).__name__
    finally:
        os.chdir(old)
    aborted = exc is not None
    obs = 'skip'
    xml = None
    if not aborted:
        try:
            obs = observe(doc, d)
            xml = canon(d.toXML())
        except Exception as ex:
            obs = ['observe-raised:%s' % type(ex).__name__]
    files = None
    if render is not None and not aborted and doc['ending'] == 'end':
        try:
            files = render_doc(d, render)
        except Exception as ex:
            files = {'!raised': '%s: %s' % (type(ex).__name__, ex)}
    return {'obs': obs, 'exc': exc, 'xml': xml, 'files': files}


def run_history(hist, render=False):
    """in a fresh fork: run all documents; returns per-document obs, snapshots, class-attribute changes and the last document's xml"""
    import logging
    logging.disable(logging.CRITICAL)
    out = {'obs': [], 'snaps': [], 'changed': [], 'exc': []}
    before = class_snapshot()
    for i, doc in enumerate(hist):
        r = run_doc(doc, ((i + len(hist)) % 3) if render else None)      # split levels 0..2, the last document always gets len(hist)*2 % 3
        out['obs'].append(r['obs'])
        out['exc'].append(r['exc'])
        out['snaps'].append(wide_snapshot())
        after = class_snapshot()
        ch = sorted(k for k in before if k in after and before[k] != after[k])
        out['changed'].append([(k, before[k][:60], after[k][:60]) for k in ch[:8]])
        out['xml'] = r['xml']
        out['files'] = r['files']
    return out


def in_fork(fn, arg, timeout=60):
    """run fn(arg) in a forked child so that every history starts from a pristine interpreter"""
    import pickle
    import signal
    r, w = os.pipe()
    pid = os.fork()
    if pid == 0:
        try:
            os.close(r)
            signal.alarm(timeout)
            devnull = os.open(os.devnull, os.O_WRONLY)
            os.dup2(devnull, 2)
            os.dup2(devnull, 1)
            try:
                res = ('ok', fn(arg))
            except BaseException as ex:
                import traceback
                res = ('err', '%s: %s\n%s' % (type(ex).__name__, ex, traceback.format_exc()[-1500:]))
            with os.fdopen(w, 'wb') as f:
                pickle.dump(res, f)
        finally:
            os._exit(0)
    os.close(w)
    with os.fdopen(r, 'rb') as f:
        data = f.read()
    os.waitpid(pid, 0)
    if not data:
        return ('err', 'child died (timeout or crash)')
    return pickle.loads(data)


def _render_history(hist):
    return run_history(hist, True)


def _render_last(hist):
    """the last document alone, rendered with the configuration it gets at the end of the history"""
    import logging
    logging.disable(logging.CRITICAL)
    i = len(hist) - 1
    r = run_doc(hist[-1], (i + len(hist)) % 3)
    return {'obs': [r['obs']], 'xml': r['xml'], 'files': r['files']}


def job(hist):
    st, res = in_fork(run_history, hist)
    if st != 'ok':
        return {'machinery': res}
    st2, solo = in_fork(run_history, [hist[-1]])
    if st2 != 'ok':
        return {'machinery': solo}
    res['solo_xml'] = solo['xml']
    res['solo_obs'] = solo['obs'][-1]
    return res


def job_render(hist):
    st, res = in_fork(_render_history, hist, 120)
    if st != 'ok':
        return {'machinery': res}
    st2, solo = in_fork(_render_last, hist, 120)
    if st2 != 'ok':
        return {'machinery': solo}
    return {'files': res['files'], 'solo_files': solo['files'], 'xml': res['xml'], 'solo_xml': solo['xml']}


def describe(hist):
    return ' ; '.join('%s[%s|%s]' % (d['cls'], ','.join(d['feats'] or []), d['ending']) for d in hist)


def gen_history(rnd):
    k = rnd.randint(2, 4)
    hist = []
    for i in range(k):
        n = rnd.randint(0, 4)
        ending = rnd.choice(ENDINGS) if (i < k - 1 and rnd.random() < 0.6) else 'end'
        hist.append({'cls': rnd.choice(['article', 'book']), 'feats': [rnd.choice(FEATS) for _ in range(n)], 'ending': ending})
    return hist


def run(chk):
    tier, seed = chk.tier, chk.seed
    asbuilt = bool(os.environ.get('C17_ASBUILT'))
    flags = ('FALSE',) * 4 if asbuilt else ('TRUE',) * 4
    chk.rule = ('every history of up to MaxDocs documents of up to MaxFeats features x 2 classes x 5 endings in the specification; replayed: every '
                'history of two documents with one feature each and all single documents with two, sampled longer ones; non-trivial = the '
                'history has an earlier document that touches interpreter-wide state; distinct by history')
    chk.assumptions = ['every history is run in a freshly forked interpreter whose parent has only imported plasTeX and created one empty document',
                       'generated identifiers are renumbered in first-occurrence order before trees are compared',
                       'observations are not taken from documents whose processing was aborted by an exception (their tree is incomplete)',
                       'class attributes named @arguments, @locals, @hasgenid are caches of the class definition and are not compared']
    setup()
    # 2 documents x <= 2 features is 11.8M histories (thorough); 3 features x 2 documents would be far more, so thorough adds 3 documents of one feature
    # and single documents of 3 features instead
    for mf, md in ([(1, 2), (2, 1)] if tier == 'quick' else [(2, 2), (1, 3), (3, 1)]):
        res = tlc.run('Isolation', cfg_text=CFG % ((mf, md) + flags + ('',)), timeout=3400, heap='12g', want_beh=False)
        chk.add_tlc(res, 'isolation(MaxFeats=%d,MaxDocs=%d)' % (mf, md))
        if not res.ok:
            chk.violation('design:' + ','.join(res.violated or ['error']), 'TLC found a counterexample in the Isolation design: %s\n%s' % (res.violated, res.trace_text[:2500]))
    hists = []
    for mf2, md2 in (((1, 2), (2, 1)) if tier == 'quick' else ((1, 2), (3, 1))):
        r2 = tlc.run('Isolation', cfg_text=CFG % ((mf2, md2) + flags + ('INVARIANT Emit',)), timeout=3400, heap='12g')
        chk.add_tlc(r2, 'isolation-emit(MaxFeats=%d,MaxDocs=%d)' % (mf2, md2))
        hists.extend(r2.beh)
    seen = set()
    uniq = []
    for b in hists:
        k = json.dumps(b['hist'], sort_keys=True)
        if k not in seen:
            seen.add(k)
            uniq.append(b)
    rnd = random.Random(seed)
    cap = 7000 if tier == 'quick' else 24000
    capped = len(uniq) > cap
    if len(uniq) > cap:
        two = [b for b in uniq if len(b['hist']) >= 2]
        one = [b for b in uniq if len(b['hist']) < 2]
        rnd.shuffle(two)
        rnd.shuffle(one)
        one = one[:cap // 2]
        uniq = one + two[:cap - len(one)]
    results = pmap(job, [b['hist'] for b in uniq], chunksize=8)
    for b, r in zip(uniq, results):
        hist = b['hist']
        if 'machinery' in r:
            raise MachineryError('C17: history %s: %s' % (describe(hist), r['machinery']))
        touching = any(d['ending'] != 'end' or any(f in ('assign_parindent', 'assign_tolerance', 'assign_LTleft', 'any', 'listinput', 'mathinput', 'eqstar', 'defcolor') for f in (d['feats'] or [])) or d['cls'] == 'article' for d in hist[:-1])
        chk.case(hist, touching, {'history': describe(hist), 'last': source(hist[-1])[:300]} if len(hist) >= 2 and touching and len(chk.samples) < 4 else None)
        chk.traces += 1
        last = hist[-1]
        tag = last['ending'] + ':' + (hist[-2]['ending'] if len(hist) > 1 else 'first')
        if r['obs'][-1] != 'skip' and list(r['obs'][-1]) != list(b['obs'] or []):
            chk.violation('replay:obs:%s' % ','.join(sorted(set(f for f, (x, y) in zip(last['feats'] or [], zip(r['obs'][-1], b['obs'] or [])) if x != y)) or ['len']),
                          'after %s the last document observes %s, the specification says %s' % (describe(hist), r['obs'][-1], b['obs']), hist)
        if r['obs'][-1] != 'skip' and r['obs'][-1] != r['solo_obs']:
            chk.violation('replay:solo-obs', 'the last document of %s observes %s; alone in a fresh interpreter it observes %s' % (describe(hist), r['obs'][-1], r['solo_obs']), hist)
        if r['xml'] is not None and r['solo_xml'] is not None and r['xml'] != r['solo_xml']:
            import difflib
            diff = [l for l in difflib.unified_diff(r['solo_xml'].split('\n'), r['xml'].split('\n'), lineterm='', n=0)][2:8]
            chk.violation('replay:tree', 'the tree of the last document of %s differs from the tree of the same document processed alone:\n%s' % (describe(hist), '\n'.join(l[:200] for l in diff)), hist)
        want = b['w']
        for i, s in enumerate(r['snaps']):
            # the specification's state after the whole history is `want`; for the repaired model every intermediate state is the initial one as well
            ref = want if i == len(hist) - 1 else None
            for fld in ('plevel', 'math', 'list', 'dmath', 'idx'):
                if ref is not None and s[fld] != ref[fld]:
                    chk.violation('replay:state:%s' % fld, 'after document %d of %s the interpreter-wide %s is %r, the specification says %r' % (i + 1, describe(hist), fld, s[fld], ref[fld]), hist)
            if ref is not None and s['regs'] != ref['regs']:
                chk.violation('replay:state:regs', 'after document %d of %s the shared parameter classes hold %s, the specification says %s' % (i + 1, describe(hist), s['regs'], ref['regs']), hist)
            if s['enabled'] != (s['plevel'] >= 0):
                chk.violation('replay:state:enabled', 'after document %d of %s ParameterCommand.enabled is %s with level %d' % (i + 1, describe(hist), s['enabled'], s['plevel']), hist)
        for i, ch in enumerate(r['changed']):
            for k, a, c in ch:
                chk.violation('class-attr:%s' % k, 'document %d of %s changed the class attribute %s from %s to %s' % (i + 1, describe(hist), k, a, c), hist)
    # code -> spec: random long histories validated by TLC
    n = 400 if tier == 'quick' else 6000
    rh = [gen_history(rnd) for _ in range(n)]
    rres = pmap(job, rh, chunksize=8)
    lines = []
    for h, r in zip(rh, rres):
        if 'machinery' in r:
            raise MachineryError('C17: history %s: %s' % (describe(h), r['machinery']))
        lines.append(json.dumps({'docs': h, 'obs': [['skip'] if o == 'skip' else o for o in r['obs']], 'snaps': [dict((k, v) for k, v in s.items() if k != 'enabled') for s in r['snaps']]}))
        chk.case(h, True)
        chk.traces += 1
        if r['xml'] is not None and r['solo_xml'] is not None and r['xml'] != r['solo_xml']:
            chk.violation('trace:tree', 'the tree of the last document of %s differs from the tree of the same document processed alone' % describe(h), h)
        for i, ch in enumerate(r['changed']):
            for k, a, c in ch:
                chk.violation('class-attr:%s' % k, 'document %d of %s changed the class attribute %s from %s to %s' % (i + 1, describe(h), k, a, c), h)
    wd = tlc.make_workdir()
    tf = os.path.join(wd, 'trace.ndjson')
    with open(tf, 'w') as f:
        f.write('\n'.join(lines) + '\n')
    cfg = (CFG % ((1, 1) + flags + ('',))).replace('INIT Init', 'INIT TraceInit').replace('NEXT Next', 'NEXT TraceNext')
    cfg = cfg.replace('INVARIANT CleanAfterDocument\nINVARIANT ResultIndependent\nINVARIANT AssignmentsRun\n', 'INVARIANT Verdict\n')
    rt = tlc.run('IsolationTrace', cfg_text=cfg, env={'TRACE_FILE': tf}, workdir=wd, timeout=3400, heap='8g', want_beh=False)
    chk.add_tlc(rt, 'trace-validation(%d histories)' % len(lines))
    if not rt.ok:
        raise MachineryError('IsolationTrace failed: %s' % rt.out[-1500:])
    for p in rt.prints:
        if isinstance(p, (list, tuple)) and len(p) >= 2 and p[0] == 'REJ':
            v = p[1]
            h = rh[int(v['tid']) - 1]
            rr = rres[int(v['tid']) - 1]
            i = int(v['doc']) - 1
            chk.violation('trace:%s' % v['field'], 'history %s: document %d: the implementation has %s = %s, the specification %s' % (
                describe(h), i + 1, v['field'], rr['obs'][i] if v['field'] == 'obs' else rr['snaps'][i].get(v['field']),
                v['want']['obs'] if v['field'] == 'obs' else v['want']['w'].get(v['field'])), h)
    # rendered files: every document of the history is parsed AND rendered (different split levels), the last one compared with itself alone
    nr = 250 if tier == 'quick' else 3000
    rr = [h for h in rh if h[-1]['ending'] == 'end'][:nr]
    for h, r in zip(rr, pmap(job_render, rr, chunksize=4)):
        if 'machinery' in r:
            raise MachineryError('C17: rendering history %s: %s' % (describe(h), r['machinery']))
        chk.case(['render', h], True)
        chk.traces += 1
        if not r['files'] or '!raised' in r['files'] or not any(fn.endswith('.html') for fn in r['files']):
            raise MachineryError('C17: rendering %s produced %s' % (describe(h), r['files']))
        if r['files'] != r['solo_files']:
            a, b = r['files'] or {}, r['solo_files'] or {}
            diff = sorted(fn for fn in set(a) | set(b) if a.get(fn) != b.get(fn))
            chk.violation('render:files', 'the files rendered for the last document of %s differ from those of the same document processed and rendered alone: %s' % (describe(h), diff[:6]), h)
    chk.extra['histories_rendered'] = len(rr)
    chk.extra['histories_replayed'] = len(uniq)
    chk.extra['random_histories_validated_by_tlc'] = len(lines)
    chk.exhaustive = not capped


def setup():
    """the parent of all forks: plasTeX imported, one empty document created (loads the Base macros), initial values measured"""
    import logging
    logging.disable(logging.CRITICAL)
    measure_init()
    import importlib
    importlib.import_module('plasTeX.Base.LaTeX.Index')
    importlib.import_module('plasTeX.Base.LaTeX.Bibliography')

"""C12 -- rendered HTML never turns document text into markup.

spec -> code : Escape.tla: TLC enumerates every text of up to MaxLen symbols over an adversarial alphabet (markup metacharacters, entity-,
               tag- and placeholder-like words, a blank, a character above 127) x context (element content / attribute value) x
               escape-high-chars, checks ShowsAsText and HighCharsOnlyChangeBytes on the pipeline model (text hook, template emission,
               image-placeholder post-processing, high-character escaping, browser decoding) and prints every text.  Each text is
               concretised in every text-bearing position of the document grammar (running text, footnote, section and subsection
               titles -- which the layouts repeat in headings, <title>, the table of contents and title= attributes -- document title,
               list item, description term, table cell, caption, verbatim, \\verb, emphasis, index key, bibliography entry), rendered by
               the real pipeline (HTML5 default and minimal themes, XHTML; escape-high-chars on and off) and every output file is parsed
               with html.parser: between the markers that delimit a text the parse must yield exactly the characters of the text, in
               text nodes or in one attribute value, and no tag, comment or declaration.
code -> spec : the raw bytes the renderer emitted between the markers are tokenised into the specification's alphabet and TLC
               (EscapeTrace.tla) decodes each one with the rule layer: the decoded characters must be the text and nothing may be markup.
"""
import html as _html
import json
import os
import random
import re
from html.parser import HTMLParser

from .. import tlc
from ..core import MachineryError, pmap

ALPHA_Q = ['&', '<', '>', 'Q', ';', '#', '-', 'sp', 'hi', 'x', 'amp', 'lt', 'b', 'width', '233', '/']
ALPHA_T = ALPHA_Q + ['=', '!', 'script', 'quot', 'em', '34', 'hi2']
WORDS = ['x', 'amp', 'lt', 'gt', 'quot', 'b', 'width', 'height', 'depth', '233', '34', 'em', 'script', '119964', 'hr', 'id']
CHAR = {'Q': '"', 'sp': ' ', 'hi': '\u00e9', 'hi2': '\U0001d49c'}
TEXSYM = {'&': '\\&', '#': '\\#', 'Q': '"', 'sp': ' ', 'hi': '\u00e9', 'hi2': '\U0001d49c'}
LEGACY = ['quot', 'amp', 'lt', 'gt']

CFG = '''CONSTANTS
  Alphabet = {%s}
  WordSyms = {%s}
  DigitSyms = {"233", "34", "119964"}
  MaxLen = %d
  Contexts = {"content", "attr"}
  HighModes = {TRUE, FALSE}
  AttrEscaped = %s
  PlaceholderGuarded = %s
INIT Init
NEXT Next
CHECK_DEADLOCK FALSE
INVARIANT ShowsAsText
INVARIANT HighCharsOnlyChangeBytes
%s
'''

POSITIONS = ['text', 'footnote', 'title', 'subtitle', 'item', 'descterm', 'cell', 'caption', 'verbatim', 'verb', 'emph', 'indexkey', 'bib', 'doctitle', 'boxed']


def q(s):
    return '"' + s.replace('\\', '\\\\').replace('"', '\\"') + '"'


def chars(sym):
    return ''.join(CHAR.get(c, c) for c in sym)


def expected(sym, pos):
    t = chars(sym)
    if pos not in ('verbatim', 'verb'):
        t = t.replace('---', '\u2014').replace('--', '\u2013')
    return t


def tex(sym, pos):
    if pos in ('verbatim', 'verb'):
        return chars(sym)
    return ''.join(TEXSYM.get(c, c) for c in sym)


def usable(sym, pos):
    if not sym or sym[-1] == 'sp':
        return False
    if pos == 'indexkey' and (any(c in ('Q', '!') for c in sym) or any(a == b == '-' for a, b in zip(sym, sym[1:]))):
        return False          # " and ! are makeindex syntax inside \index; index keys are not ligature-processed
    return True


RAWS = [['<', 'b', '>', 'x', '<', '/', 'b', '>'], ['<', 'hr', '/', '>'], ['&', 'lt', ';'], ['<', 'b', 'sp', 'id', '=', 'Q', 'x', 'Q', '>', 'x', '<', '/', 'b', '>']]


def build_doc(slots, raw=None):
    """slots: list of (k, pos, sym).  One document: document title, sections with subsections and the body positions"""
    by = {}
    for k, pos, sym in slots:
        by.setdefault(pos, []).append((k, sym))

    def M(k, pos, sym):
        if pos == 'boxed':
            # the text is a leaf of its own: the markers are outside the box
            return 'Xq%dq:\\textit{%s}:Xr%dr' % (k, tex(sym, pos), k)
        return 'Xq%dq:%s:Xr%dr' % (k, tex(sym, pos), k)
    out = ['\\documentclass{article}\n\\usepackage{makeidx}\\makeindex\n']
    if raw:
        out.append('\\usepackage{html}\n')
    dt = by.get('doctitle', [])
    if dt:
        out.append('\\title{%s}\\author{A}\\date{D}\n' % M(dt[0][0], 'doctitle', dt[0][1]))
    out.append('\\begin{document}\n')
    if dt:
        out.append('\\maketitle\n')
    out.append('start\n\n')
    if raw:
        # the same characters as deliberate markup, earlier in the document
        out.append('\\begin{rawhtml}%s\\end{rawhtml}\n\n' % chars(raw))
    titles = by.get('title', [])
    subs = by.get('subtitle', [])
    body = []
    for pos in ('text', 'boxed', 'footnote', 'item', 'descterm', 'cell', 'caption', 'verbatim', 'verb', 'emph', 'indexkey', 'bib'):
        for k, sym in by.get(pos, []):
            m = M(k, pos, sym)
            if pos in ('text', 'boxed'):
                body.append('%s\n\n' % m)
            elif pos == 'footnote':
                body.append('w\\footnote{%s}\n\n' % m)
            elif pos == 'item':
                body.append('\\begin{itemize}\\item %s\\end{itemize}\n' % m)
            elif pos == 'descterm':
                body.append('\\begin{description}\\item[%s] body\\end{description}\n' % m)
            elif pos == 'cell':
                body.append('\\begin{tabular}{ll}%s & b\\\\\\end{tabular}\n\n' % m)
            elif pos == 'caption':
                body.append('\\begin{figure}fig\\caption{%s}\\end{figure}\n' % m)
            elif pos == 'verbatim':
                body.append('\\begin{verbatim}\n%s\n\\end{verbatim}\n' % m)
            elif pos == 'verb':
                body.append('w \\verb|%s| w\n\n' % m)
            elif pos == 'emph':
                body.append('w \\emph{%s} w\n\n' % m)
            elif pos == 'indexkey':
                body.append('w\\index{%s} w\n\n' % m)
    nsec = max(1, len(titles))
    per = (len(body) + nsec - 1) // nsec if body else 0
    for i in range(nsec):
        if i < len(titles):
            out.append('\\section{%s}\nsec\n\n' % M(titles[i][0], 'title', titles[i][1]))
        else:
            out.append('\\section{Plain}\nsec\n\n')
        if i < len(subs):
            out.append('\\subsection{%s}\nsub\n\n' % M(subs[i][0], 'subtitle', subs[i][1]))
        out.extend(body[i * per:(i + 1) * per])
    for k, sym in subs[nsec:]:
        out.append('\\subsection{%s}\nsub\n\n' % M(k, 'subtitle', sym))
    bibs = by.get('bib', [])
    if bibs:
        out.append('\\begin{thebibliography}{9}\n')
        for k, sym in bibs:
            out.append('\\bibitem{k%d} %s\n' % (k, M(k, 'bib', sym)))
        out.append('\\end{thebibliography}\n')
    if by.get('indexkey'):
        out.append('\\printindex\n')
    out.append('\\end{document}\n')
    return ''.join(out)


class Flat(HTMLParser):
    """the parse of a page as one character stream: text as it is, every tag / comment / declaration as \\0; attribute values kept aside.
    <title> is RCDATA and <script>/<style> are raw text in HTML, so tags inside them are characters, not markup."""

    def __init__(self, text):
        HTMLParser.__init__(self, convert_charrefs=True)
        self.buf = []
        self.attrs = []
        self.rcdata = None
        self.feed(text)
        self.close()
        self.flat = ''.join(self.buf)

    def handle_starttag(self, tag, attrs):
        if self.rcdata:
            self.buf.append(self.get_starttag_text())
            return
        self.buf.append('\0')
        for a, v in attrs:
            if v:
                self.attrs.append((tag, a, v))
        if tag == 'title':
            self.rcdata = 'title'

    def handle_startendtag(self, tag, attrs):
        if self.rcdata:
            self.buf.append(self.get_starttag_text())
            return
        self.buf.append('\0')
        for a, v in attrs:
            if v:
                self.attrs.append((tag, a, v))

    def handle_endtag(self, tag):
        if self.rcdata:
            if tag == self.rcdata:
                self.rcdata = None
                self.buf.append('\0')
            else:
                self.buf.append('</%s>' % tag)
            return
        self.buf.append('\0')

    def handle_data(self, data):
        self.buf.append(data)

    def handle_comment(self, data):
        self.buf.append('\0' if not self.rcdata else '<!--%s-->' % data)

    def handle_decl(self, decl):
        self.buf.append('\0')

    def handle_pi(self, data):
        self.buf.append('\0')

    def unknown_decl(self, data):
        self.buf.append('\0')


def ws(s):
    return re.sub(r'\s+', ' ', s).strip()


_tok = re.compile(r'[A-Za-z]+|[0-9]+|\s+|.', re.S)


def tokenise(raw):
    """raw bytes between the markers -> symbols of Escape.tla (blank runs -> sp, trimmed)"""
    out = []
    prev = None
    for m in _tok.finditer(raw):
        t = m.group(0)
        if t.isspace():
            t = 'sp'
            if prev == 'sp':
                continue
        elif t == '"':
            t = 'Q'
        elif t == '\u00e9':
            t = 'hi'
        elif t == '\U0001d49c':
            t = 'hi2'
        elif ord(t[0]) > 127:
            t = '#%d' % ord(t)          # any other character above 127 is named by its code, as Dec names numeric references
        elif t.isalpha() and prev == '&':
            for name in LEGACY:
                if t.startswith(name) and t != name:
                    out.append(name)
                    t = t[len(name):]
                    break
        out.append(t)
        prev = t
    while out and out[0] == 'sp':
        out.pop(0)
    while out and out[-1] == 'sp':
        out.pop()
    return out


def analyse(files, slots, high, pos_of):
    """returns (violations, occurrences) ; occurrence = (k, ctx, rawtokens)"""
    bad = []
    occ = []
    found = {}
    for fn, text in files.items():
        if high and any(ord(c) > 127 for c in text):
            c = next(c for c in text if ord(c) > 127)
            bad.append(('high:nonascii', None, '%s holds the character %r although escape-high-chars is on' % (fn, c)))
        fl = Flat(text)
        # text nodes
        for m in re.finditer(r'Xq(\d+)q:', fl.flat):
            k = int(m.group(1))
            end = fl.flat.find(':Xr%dr' % k, m.end())
            nxt = fl.flat.find('Xq', m.end())
            found[k] = found.get(k, 0) + 1
            if end < 0 or (0 <= nxt < end):
                seg = fl.flat[m.end():m.end() + 80]
                bad.append(('content:lost-end', k, '%s: the text after marker %d never reaches its end marker: %r' % (fn, k, seg)))
                continue
            seg = fl.flat[m.end():end]
            if pos_of.get(k) == 'boxed' and seg.startswith('\0') and seg.endswith('\0') and len(seg) >= 2:
                seg = seg[1:-1]         # the box's own element
            if '\0' in seg:
                bad.append(('content:markup', k, '%s: part of text %d was parsed as markup: %r' % (fn, k, seg.replace('\0', '<TAG>'))))
            elif ws(seg) != ws(slots[k][1]):
                bad.append(('content:text', k, '%s: text %d is displayed as %r, the document says %r' % (fn, k, ws(seg), ws(slots[k][1]))))
        for tag, a, v in fl.attrs:
            for m in re.finditer(r'Xq(\d+)q:', v):
                k = int(m.group(1))
                found[k] = found.get(k, 0) + 1
                end = v.find(':Xr%dr' % k, m.end())
                if end < 0:
                    bad.append(('attr:breakout', k, '%s: <%s %s=...> the value holding text %d ends early: %r' % (fn, tag, a, k, v[m.end():][:80])))
                elif ws(v[m.end():end]) != ws(slots[k][1]):
                    bad.append(('attr:text', k, '%s: <%s %s=...> text %d reads %r, the document says %r' % (fn, tag, a, k, ws(v[m.end():end]), ws(slots[k][1]))))
        # raw occurrences for the specification
        for m in re.finditer(r'Xq(\d+)q:', text):
            k = int(m.group(1))
            st = m.start()
            ctx = 'attr' if text.rfind('<', 0, st) > text.rfind('>', 0, st) else 'content'
            end = text.find(':Xr%dr' % k, m.end())
            nxt = text.find('Xq', m.end())
            if end < 0 or (0 <= nxt < end):
                raw = text[m.end():m.end() + 60]
                raw = raw.split('Xq')[0]
            else:
                raw = text[m.end():end]
            if pos_of.get(k) == 'boxed':
                raw = re.sub(r'^\s*<[^<>]*>', '', re.sub(r'</[^<>]*>\s*$', '', raw))
            occ.append((k, ctx, tokenise(raw)))
    for k in slots:
        if not found.get(k) and pos_of[k] != 'indexkey':
            bad.append(('missing', k, 'text %d (%s) appears nowhere in the output' % (k, pos_of[k])))
    return bad, occ


def render_job(job):
    from . import c13
    slots, renderer, theme, high = job[:4]
    raw = job[4] if len(job) > 4 else None
    src = build_doc(slots, raw)
    ov = {('files', 'split-level'): 1, ('general', 'copy-theme-extras'): False, ('files', 'escape-high-chars'): high}
    if theme != 'default':
        ov[('general', 'theme')] = theme
    exp = dict((k, (sym, expected(sym, pos))) for k, pos, sym in slots)
    pos_of = dict((k, pos) for k, pos, sym in slots)
    try:
        files = c13.render(src, ov, renderer)
    except Exception as ex:
        return [('raise', None, 'rendering raised %s: %s\n%s' % (type(ex).__name__, ex, src[:1500]))], [], src
    bad, occ = analyse(files, exp, high, pos_of)
    return bad, occ, src


def run(chk):
    tier, seed = chk.tier, chk.seed
    asbuilt = bool(os.environ.get('C12_ASBUILT'))
    chk.rule = ('every text of up to MaxLen symbols over the alphabet x context x escape-high-chars in the specification; every such text in every '
                'text-bearing position x renderer/theme in the implementation (quick: sampled beyond length 3); non-trivial = the text contains a '
                'markup metacharacter; distinct by (text, position, renderer, theme, high)')
    chk.assumptions = ['the expected characters of a text are its symbols after TeX ligatures (-- and ---)',
                       'index keys avoid " and ! (makeindex syntax); blanks are compared after collapsing runs',
                       '<title> content is RCDATA and <script>/<style> raw text, as in the HTML parsing rules']
    alpha, maxlen = (ALPHA_Q, 4) if tier == 'quick' else (ALPHA_Q, 5)
    words = ', '.join(q(w) for w in WORDS)
    res = tlc.run('Escape', cfg_text=CFG % (', '.join(q(a) for a in alpha), words, maxlen, 'FALSE' if asbuilt else 'TRUE', 'FALSE' if asbuilt else 'TRUE', ''),
                  timeout=3400, heap='12g', want_beh=False)
    chk.add_tlc(res, 'escape(MaxLen=%d,|alphabet|=%d)' % (maxlen, len(alpha)))
    if not res.ok:
        chk.violation('design:' + ','.join(res.violated or ['error']), 'TLC found a counterexample in the Escape design: %s\n%s' % (res.violated, res.trace_text[:2500]))
    # the texts to replay: printed by TLC for a smaller bound (every text up to 3 symbols) ...
    res3 = tlc.run('Escape', cfg_text=CFG % (', '.join(q(a) for a in ALPHA_T), words, 2 if tier == 'quick' else 3, 'FALSE' if asbuilt else 'TRUE', 'FALSE' if asbuilt else 'TRUE', 'INVARIANT EmitBeh'),
                   timeout=3400, heap='12g')
    chk.add_tlc(res3, 'escape-emit(|alphabet|=%d)' % len(ALPHA_T))
    texts = {}
    for b in res3.beh:
        if b['ctx'] == 'content' and not b['high']:
            texts[tuple(b['s'] or [])] = 1
    # ... and by simulation for longer ones
    nsim, dsim = (1500, 7) if tier == 'quick' else (4000, 9)      # TLC evaluates the printing invariant on every successor: ~20 texts per step
    rs = tlc.run('Escape', cfg_text=CFG % (', '.join(q(a) for a in ALPHA_T), words, dsim, 'FALSE' if asbuilt else 'TRUE', 'FALSE' if asbuilt else 'TRUE', 'INVARIANT EmitBeh'),
                 simulate=nsim, depth=dsim + 1, seed=seed + 11, timeout=3400, heap='8g', workers=4)
    chk.add_tlc(rs, 'simulate(num=%d,depth=%d)' % (nsim, dsim))
    if rs.violated:
        chk.violation('design:sim:' + ','.join(rs.violated), 'TLC simulation found a counterexample: %s\n%s' % (rs.violated, rs.trace_text[:2500]))
    for b in rs.beh:
        if len(b['s'] or []) >= 3:
            texts[tuple(b['s'])] = 1
    # hand-picked shapes from the design (placeholder-, entity- and attribute-shaped)
    hand = (['&', 'amp', '-', 'width', ';'], ['&', 'x', '-', 'width', ';', '&', 'em', ';'], ['Q', 'sp', 'x', '=', 'Q', 'x'], ['<', 'script', '>', 'x', '<', '/', 'script', '>'],
              ['&', '#', '233', ';'], ['&', 'lt', ';', 'b', '&', 'gt', ';'], ['<', '!', '-', '-', 'x'], ['hi', '&', 'hi'], ['&', 'amp', 'x'], ['&', 'lt', '-', 'height', ';'])
    texts = [list(t) for t in texts if t and list(t) not in [list(h) for h in hand]]
    if not texts:
        raise MachineryError('C12: no texts emitted')
    rnd = random.Random(seed)
    rnd.shuffle(texts)
    texts = [list(h) for h in hand] + texts
    # slots: every text in every position
    configs = [('HTML5', 'default', False), ('HTML5', 'default', True), ('HTML5', 'minimal', False), ('XHTML', 'default', False), ('XHTML', 'default', True)]
    jobs = []
    per_doc = {'text': 6, 'footnote': 4, 'title': 4, 'subtitle': 4, 'item': 4, 'descterm': 4, 'cell': 4, 'caption': 3, 'verbatim': 4, 'verb': 4, 'emph': 4, 'indexkey': 3, 'bib': 3, 'doctitle': 1, 'boxed': 4}
    budget = 1400 if tier == 'quick' else 8000
    pools = dict((p, [t for t in texts if usable(t, p)]) for p in POSITIONS)
    cursor = dict((p, 0) for p in POSITIONS)
    ndocs = 0
    while ndocs < budget:
        slots = []
        k = 0
        progressed = False
        for p in POSITIONS:
            pool = pools[p]
            for _ in range(per_doc[p]):
                if cursor[p] < len(pool):
                    progressed = True
                t = pool[cursor[p] % len(pool)]
                cursor[p] += 1
                k += 1
                slots.append((k, p, t))
        if not progressed:
            break
        cfgi = configs[ndocs % len(configs)] if ndocs >= 5 else configs[ndocs]
        jobs.append((slots, cfgi[0], cfgi[1], cfgi[2]))
        ndocs += 1
    chk.exhaustive = all(cursor[p] >= len(pools[p]) for p in POSITIONS)
    # documents that also use the characters of a text as deliberate raw markup (html package) before the text
    for raw in RAWS:
        for cfgi in configs:
            k = 0
            slots = []
            for p in POSITIONS:
                if usable(raw, p):
                    for t in ((raw,) if p == 'doctitle' else (raw, raw)):
                        k += 1
                        slots.append((k, p, t))
            jobs.append((slots, cfgi[0], cfgi[1], cfgi[2], raw))
    results = pmap(render_job, jobs, chunksize=4)
    lines = []
    lineinfo = []
    seen = set()
    for job, (bad, occ, src) in zip(jobs, results):
        slots, rend, theme, high = job[:4]
        sl = dict((k, (pos, sym)) for k, pos, sym in slots)
        for k, pos, sym in slots:
            chk.case([sym, pos, rend, theme, high], any(c in ('&', '<', '>', 'Q') for c in sym),
                     {'text': chars(sym), 'position': pos, 'renderer': rend} if len(chk.samples) < 4 and len(sym) >= 4 else None)
        chk.traces += 1
        for kind, k, msg in bad:
            pos = sl[k][0] if k in sl else '-'
            chk.violation('replay:%s:%s:%s%s' % (kind, pos, rend, '' if theme == 'default' else ':' + theme),
                          '%s  [text %r at position %s, %s/%s, escape-high-chars %s]' % (msg, chars(sl[k][1]) if k in sl else '', pos, rend, theme, high),
                          {'slots': slots, 'renderer': rend, 'theme': theme, 'high': high})
        for k, ctx, raw in occ:
            if k not in sl:
                continue
            pos, sym = sl[k]
            want = tokenise(expected(sym, pos))
            key = (ctx, tuple(raw), tuple(want))
            if key in seen:
                continue
            seen.add(key)
            lines.append(json.dumps({'ctx': ctx, 'raw': raw, 'want': want}))
            lineinfo.append((pos, rend, theme, high, sym))
    # code -> spec: TLC decodes what the renderer really wrote
    if lines:
        wd = tlc.make_workdir()
        tf = os.path.join(wd, 'trace.ndjson')
        with open(tf, 'w') as f:
            f.write('\n'.join(lines) + '\n')
        wordset = set(WORDS)
        digits = set(['233', '34', '119964'])
        for ln in lines:
            for t in json.loads(ln)['raw'] + json.loads(ln)['want']:
                if t.isalpha() and t.isascii():
                    wordset.add(t)
                elif t.isdigit():
                    wordset.add(t)
                    digits.add(t)
        mc = '---- MODULE MC_EscapeTrace ----\nEXTENDS EscapeTrace\nMCWords == {%s}\nMCDigits == {%s}\n====\n' % (
            ', '.join(q(w) for w in sorted(wordset)), ', '.join(q(w) for w in sorted(digits)))
        cfg = ('CONSTANTS\n  Alphabet = {"x"}\n  WordSyms <- MCWords\n  DigitSyms <- MCDigits\n  MaxLen = 1\n  Contexts = {"content"}\n  HighModes = {FALSE}\n'
               '  AttrEscaped = TRUE\n  PlaceholderGuarded = TRUE\nINIT TraceInit\nNEXT TraceNext\nCHECK_DEADLOCK FALSE\nINVARIANT Verdict\n')
        rt = tlc.run('MC_EscapeTrace', cfg_text=cfg, extra_modules={'MC_EscapeTrace.tla': mc}, env={'TRACE_FILE': tf}, workdir=wd, timeout=3400, heap='8g', want_beh=False)
        chk.add_tlc(rt, 'decode-real-output(%d distinct emissions)' % len(lines))
        if not rt.ok:
            raise MachineryError('EscapeTrace failed: %s' % rt.out[-1500:])
        nrej = 0
        for p in rt.prints:
            if isinstance(p, (list, tuple)) and len(p) >= 2 and p[0] == 'REJ':
                r = json.loads(p[1]) if isinstance(p[1], str) else p[1]
                i = int(r['tid']) - 1
                pos, rend, theme, high, sym = lineinfo[i]
                d = json.loads(lines[i])
                nrej += 1
                chk.violation('trace:%s:%s:%s%s' % ('markup' if r['markup'] else 'text', pos, rend, '' if theme == 'default' else ':' + theme),
                              'the renderer wrote %r for the text %r at position %s in %s context; a browser reads it as %r%s'
                              % (chars(d['raw']), chars(d['want']), pos, d['ctx'], chars(r['got'] or []), ' and then markup' if r['markup'] else ''),
                              {'line': d, 'position': pos, 'renderer': rend, 'theme': theme, 'high': high})
        chk.extra['emissions_decoded_by_tlc'] = len(lines)
        chk.evaluations += len(lines)
    chk.extra['documents_rendered'] = len(jobs)
    chk.extra['texts'] = len(texts)

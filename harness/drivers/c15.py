"""C15 -- the filename generator yields unique, clean names in template order.

spec -> code : TLC enumerates every request sequence (bounded) for a family of templates and
               configurations from Filenames.tla; each behaviour is replayed on the real
               plasTeX.Filenames and every result compared.
code -> spec : random templates / long binding sequences are run on the real generator; the
               recorded call/return traces are validated by TLC against FilenamesTrace.tla
               (all invariants evaluated at every step).
"""
import json
import os
import random

from .. import tlc
from ..core import MachineryError

UNB = ["UNBOUND"]
ERR = ["ERROR"]
NONE = ["NONE"]


def chars(s):
    return list(s)


def lit(s):
    return {"k": "lit", "s": chars(s), "name": "", "fmt": 0, "w": 0}


def var(name, fmt=0):
    return {"k": "var", "s": [], "name": name, "fmt": fmt, "w": 0}


def num(w=0):
    return {"k": "num", "s": [], "name": "", "fmt": 0, "w": w}


def part_str(p, style=0):
    if p['k'] == 'lit':
        return ''.join(p['s'])
    if p['k'] == 'num':
        name, fmt = 'num', p['w']
    else:
        name, fmt = p['name'], p['fmt']
    if style == 0:
        s = '${%s}' % name
    elif style == 1:
        s = '$%s' % name
    else:
        s = '${ %s }' % name
    if fmt:
        s += ('(%d)' % fmt) if style != 2 else ('( %d )' % fmt)
    return s


def alt_str(alt, style=0):
    out = ''
    for i, p in enumerate(alt):
        s = part_str(p, style)
        # "$name" directly followed by a word character would change the name: use braces
        if style == 1 and p['k'] != 'lit' and not (p.get('fmt') or p.get('w')) and i + 1 < len(alt) \
                and alt[i + 1]['k'] == 'lit' and alt[i + 1]['s'] and (alt[i + 1]['s'][0].isalnum() or alt[i + 1]['s'][0] == '_'):
            s = part_str(p, 0)
        out += s
    return out


class Template(object):
    """Abstract template = statics + one wildcard given as (prefix, alternatives, suffix)."""

    def __init__(self, tid, statics, prefix, alts, suffix, bracket=True):
        self.id = tid
        self.statics_src = statics          # list of alts (each a list of parts)
        self.prefix, self.alts, self.suffix = prefix, alts, suffix
        self.bracket = bracket              # False: no [..]; the last static acts as wildcard

    def abstract(self):
        statics = [list(a) for a in self.statics_src]
        if self.bracket:
            wild = [self.prefix + a + self.suffix for a in self.alts if a]
        else:
            wild = []
        if not wild and statics:
            wild = [statics.pop()]
        return {"id": self.id, "statics": statics, "wild": wild}

    def concrete(self, style=0):
        names = [alt_str(a, style) for a in self.statics_src]
        if self.bracket:
            sep = ', ' if style != 0 else ','
            inner = sep.join(alt_str(a, style) for a in self.alts)
            if style == 2:
                inner = ' ' + inner + ' '
            names.append(alt_str(self.prefix, style) + '[' + inner + ']' + alt_str(self.suffix, style))
        s = ' '.join(names)
        if style == 2:
            s = '  ' + s.replace(' ', '  ') + ' ' if not self.bracket else ' ' + s + ' '
        return s


def template_family(tier):
    T = []
    add = lambda *a, **k: T.append(Template('t%d' % len(T), *a, **k))
    H = lit('.h')
    add([[lit('index')]], [], [[var('id')], [lit('s'), num(2)]], [])
    add([[lit('index')], [lit('toc.h')]], [], [[var('id')], [var('title', 2)], [lit('s'), num(0)]], [H])
    add([], [lit('p-')], [[var('id')], [var('title')]], [])
    add([], [], [[var('id')], [var('title')], [var('id'), lit('_'), var('title')]], [])
    add([[lit('a')], [lit('b')]], [], [], [], bracket=False)
    add([[var('id')], [lit('x'), num(3)]], [], [[var('title', 1)], [lit('n'), num(1)]], [])
    add([], [], [[lit('s'), num(2)]], [])
    add([[lit('s1')], [lit('s'), num(0)]], [], [[lit('s'), num(0)]], [])
    add([], [], [[var('title', 2), lit('.x')], [var('id')]], [])
    add([[lit('a')], [var('id')], [lit('c')]], [], [], [], bracket=False)
    # $num sharing an alternative / a static name with a variable that may be unbound
    add([[var('id'), lit('-'), num(0)]], [], [[var('id'), lit('-'), num(2)], [var('title')], [lit('s'), num(3)]], [])
    if tier == 'thorough':
        add([], [], [[var('id')], [var('title', 3)], [var('title', 1), num(2)], [lit('z'), num(0)]], [H])
        add([[num(2)], [num(0)]], [lit('k')], [[num(1), var('id')], [num(0)]], [])
        add([[var('title', 2)]], [], [[var('id', 1)]], [])
        add([], [], [[var('title')]], [])
        add([[lit('index')]], [var('id')], [[lit('-'), var('title')], [num(0)]], [H])
    return T


def value(s):
    return chars(s) if s is not None else UNB


def config_family(tier):
    C = []

    def add(bad, repl, ext, reserved, g):
        C.append({"id": "c%d" % len(C), "bad": sorted(bad), "repl": chars(repl), "ext": chars(ext),
                  "reserved": [chars(r) for r in reserved],
                  "g": {"id": value(g.get('id')), "title": value(g.get('title'))}})
    add(' /', '-', '.h', [], {})
    add('', '', '.h', ['a.h', 's01.h', 'index.h'], {})
    add(' /.', '-', '', ['a'], {'title': 'T g'})
    if tier == 'thorough':
        add('/', '__', '.h', ['s1.h', 's2.h', 'n1.h'], {'id': 'g'})
        add(' ', '', '', [], {})
    return C


def binding_family(tier):
    vals_id = [None, 'a', 'b', 'x/y']
    vals_title = [None, 'a', 'a b c', 'T g', 'a.b  c']
    if tier == 'quick':
        pairs = [(None, None), ('a', None), (None, 'a'), ('a', 'a b c'), ('b', 'a'), ('x/y', 'T g'),
                 (None, 'a b c'), ('a', 'a.b  c')]
    else:
        pairs = [(i, t) for i in vals_id for t in vals_title]
    return [{"id": value(i), "title": value(t)} for i, t in pairs]


def mc_module(templates, configs, bindings, maxreq, variant):
    words_first, reset_on_skip, lazy = variant
    def cfg_tla(c):
        return ('[id |-> %s, bad |-> %s, repl |-> %s, ext |-> %s, reserved |-> %s, g |-> %s]' % (
            tlc.to_tla(c['id']), tlc.to_tla(set(c['bad'])) if c['bad'] else '{}', tlc.to_tla(c['repl']),
            tlc.to_tla(c['ext']),
            '{' + ', '.join(tlc.to_tla(r) for r in c['reserved']) + '}', tlc.to_tla(c['g'])))
    return '''---- MODULE MC_Filenames ----
EXTENDS Filenames
MCTemplates == {%s}
MCConfigs == {%s}
MCBindings == {%s}
MCMaxReq == %d
MCWordsFirst == %s
MCResetOnSkip == %s
MCLazyInitial == %s
StopAtDepth == TLCGet("level") <= 400
====
''' % (',\n  '.join(tlc.to_tla(t) for t in templates), ',\n  '.join(cfg_tla(c) for c in configs),
       ',\n  '.join(tlc.to_tla(b) for b in bindings), maxreq,
       'TRUE' if words_first else 'FALSE', 'TRUE' if reset_on_skip else 'FALSE', 'TRUE' if lazy else 'FALSE')


CFG_COMMON = '''CONSTANTS
  Templates <- MCTemplates
  Configs <- MCConfigs
  Bindings <- MCBindings
  MaxReq <- MCMaxReq
  MaxPasses = 100
  WordsFirst <- MCWordsFirst
  ResetOnSkip <- MCResetOnSkip
  LazyInitial <- MCLazyInitial
'''

CFG_MC = CFG_COMMON + '''INIT Init
NEXT Next
VIEW view
INVARIANT TypeOK
INVARIANT Clean
INVARIANT ExtensionAdded
INVARIANT RefinesRule
PROPERTY NeverTwice
PROPERTY NumSuccessive
CHECK_DEADLOCK FALSE
'''

CFG_LIVE = CFG_COMMON + '''SPECIFICATION Spec
PROPERTY Terminates
CHECK_DEADLOCK FALSE
'''

CFG_EMIT = CFG_COMMON + '''INIT Init
NEXT Next
INVARIANT Emit
CHECK_DEADLOCK FALSE
'''

CFG_TRACE = '''CONSTANTS
  Templates = {}
  Configs = {}
  Bindings = {}
  MaxReq = 100000
  MaxPasses = 100
  WordsFirst <- MCWordsFirst
  ResetOnSkip <- MCResetOnSkip
  LazyInitial <- MCLazyInitial
INIT TraceInit
NEXT TraceNext
CONSTRAINT Progress
INVARIANT TypeOK
INVARIANT Clean
INVARIANT ExtensionAdded
INVARIANT RefinesRule
PROPERTY NeverTwice
PROPERTY NumSuccessive
POSTCONDITION TraceAccepted
CHECK_DEADLOCK FALSE
'''


def code_variant():
    """Which variant of the two repaired behaviours the spec is run with.  The repaired
    (documented) behaviour is what the property demands; see DESIGN.md F20/F21."""
    import os
    if os.environ.get('C15_ASBUILT'):
        return False, True, True
    return True, False, False      # WordsFirst, ResetOnSkip, LazyInitial


# ---------------------------------------------------------------------------
def run_real(tmpl_string, cfg, bindings_seq):
    """Run the real generator; returns list of results in trace encoding."""
    from plasTeX.Filenames import Filenames
    g = dict((k, ''.join(v)) for k, v in cfg['g'].items() if v != UNB)
    charsub = [''.join(cfg['bad']), ''.join(cfg['repl'])] if cfg['bad'] else None
    invalid = dict((''.join(r), None) for r in cfg['reserved'])
    gen = Filenames(tmpl_string, charsub=charsub, variables=g, extension=''.join(cfg['ext']),
                    invalid=invalid)
    out = []
    for b in bindings_seq:
        for k, v in b.items():
            if v != UNB:
                gen.variables[k] = ''.join(v)
        try:
            r = gen()
        except ValueError:
            out.append(ERR)
            continue
        except Exception as e:     # any other exception escaping the generator
            out.append(["EXC", type(e).__name__])
            continue
        out.append(NONE if r is None else chars(r))
    return out


def parse_conforms(t):
    """The real parseFilenames applied to every concrete spelling of the template must give the
    abstract structure (static list, then the alternatives)."""
    from plasTeX.Filenames import Filenames
    bad = []
    for style in (0, 1, 2):
        s = t.concrete(style)
        got = Filenames(s).files
        want = [alt_str(a, 0) for a in t.statics_src]
        if t.bracket:
            w = [alt_str(t.prefix + a + t.suffix, 0) for a in t.alts if a]
            if w:
                want.append(w)
        # normal form of formats inside parseFilenames: ${name.N}
        import re
        want = json.loads(re.sub(r'\}\((\d+)\)', r'.\1}', json.dumps(want)))
        if got != want:
            bad.append((style, s, got, want))
    return bad


def run(chk):
    tier, seed = chk.tier, chk.seed
    chk.rule = ('TLC enumerates all request sequences of length <= MaxReq over a binding family for each '
                'template x configuration; a behaviour is non-trivial if at least one request issues a name '
                'and at least one request skips a candidate (unbound or taken) or reports an error; distinct by '
                'content hash of (template, config, bindings)')
    chk.assumptions = ['TLC and the transcription of the contract in FilenamesRules.tla',
                       'templates are concretised by harness/drivers/c15.py (three spellings each) and '
                       'checked against the real parseFilenames']
    templates = template_family(tier)
    configs = config_family(tier)
    bindings = binding_family(tier)
    variant = code_variant()
    abst = [t.abstract() for t in templates]
    tmap = dict((t.id, t) for t in templates)
    cmap = dict((c['id'], c) for c in configs)

    # 0. template parsing conformance
    for t in templates:
        for style, s, got, want in parse_conforms(t):
            chk.violation('parse-template', 'parseFilenames(%r) = %r, expected %r' % (s, got, want),
                          {'template': s})

    # 1. design check: machine refines rule layer, invariants, action properties (hist hidden by VIEW)
    maxreq_mc = 4      # thorough widens the template/config/binding families instead (7.3M states); 5 requests exceed 35M
    mod = mc_module(abst, configs, bindings, maxreq_mc, variant)
    cfg_mc = CFG_MC if not os.environ.get('C15_ASBUILT') else CFG_MC.replace('INVARIANT RefinesRule\n', '')
    res = tlc.run('MC_Filenames', cfg_text=cfg_mc, extra_modules={'MC_Filenames.tla': mod},
                  coverage=True, timeout=3000)
    chk.add_tlc(res, 'mc(MaxReq=%d)' % maxreq_mc)
    if not res.ok:
        chk.violation('design:' + ','.join(res.violated or ['deadlock']),
                      'TLC found a counterexample in the Filenames design: %s\n%s'
                      % (res.violated, res.trace_text[:3000]))
    must = ['Request', 'StaticSkipUnbound', 'StaticSkipTaken', 'StaticIssue', 'StaticExhausted', 'AltUnbound',
            'AltTaken', 'AltIssue', 'PassExhausted', 'GiveUp', 'RequestAfterError']
    missing = [a for a in must if res.coverage.get(a, (0, 0))[1] == 0]
    if missing:
        raise MachineryError('C15: actions never taken in the model: %s' % missing)

    # 1b. liveness (termination of every request) on a smaller instance, no VIEW
    mod_l = mc_module(abst, configs[:2], bindings[:4], 2, variant)
    resl = tlc.run('MC_Filenames', cfg_text=CFG_LIVE, extra_modules={'MC_Filenames.tla': mod_l}, timeout=3000)
    chk.add_tlc(resl, 'liveness(MaxReq=2)')
    if not resl.ok:
        chk.violation('design:Terminates', 'a request does not terminate: %s\n%s' % (resl.violated, resl.trace_text[:3000]))

    # 2. behaviours -> code
    maxreq_emit = 3
    mod_e = mc_module(abst, configs, bindings, maxreq_emit, variant)
    rese = tlc.run('MC_Filenames', cfg_text=CFG_EMIT, extra_modules={'MC_Filenames.tla': mod_e}, timeout=3000)
    chk.add_tlc(rese, 'emit(MaxReq=%d)' % maxreq_emit)
    if not rese.beh:
        raise MachineryError('C15: TLC emitted no behaviours')
    nbad = 0
    for beh in rese.beh:
        t = tmap[beh['t']]
        c = cmap[beh['c']]
        bs = [e['b'] for e in beh['h']]
        want = [e['r'] for e in beh['h']]
        style = (len(bs) + sum(len(str(b)) for b in bs)) % 3
        got = run_real(t.concrete(style), c, bs)
        nontrivial = any(r not in (ERR, NONE) for r in want) and _has_skip(t, c, bs, want)
        chk.case([beh['t'], beh['c'], bs], nontrivial,
                 {'template': t.concrete(style), 'config': c['id'],
                  'requests': [dict((k, ''.join(v)) for k, v in b.items() if v != UNB) for b in bs],
                  'results': [''.join(r) for r in want]})
        chk.traces += 1
        if got != want:
            nbad += 1
            k = next(i for i in range(len(want)) if got[i] != want[i])
            chk.violation(_signature(t, c, bs, k, got, want),
                          'template %r config %s requests %s: request %d returned %r, the specification says %r'
                          % (t.concrete(style), c, _b(bs), k + 1, _r(got[k]), _r(want[k])),
                          {'template': t.concrete(style), 'config': c, 'requests': bs, 'got': got, 'want': want})
    chk.exhaustive = True
    chk.extra['bounds'] = {'templates': len(templates), 'configs': len(configs), 'bindings': len(bindings),
                           'MaxReq_design': maxreq_mc, 'MaxReq_replayed': maxreq_emit}

    # 3. code -> spec: random long sequences validated by TLC
    rnd = random.Random(seed)
    ntr = 300 if tier == 'quick' else 3000
    lines = []
    allb = binding_family('thorough')
    for i in range(ntr):
        t = rnd.choice(templates)
        c = rnd.choice(configs)
        n = rnd.randint(1, 12)
        bs = [rnd.choice(allb) for _ in range(n)]
        style = rnd.randint(0, 2)
        got = run_real(t.concrete(style), c, bs)
        lines.append(json.dumps({"t": t.abstract(), "c": c, "ev": [{"b": b, "r": r} for b, r in zip(bs, got)],
                                 "src": t.concrete(style)}))
    # one overlong trace (> 100 requests) is outside the property's bound; not generated.
    wd = tlc.make_workdir()
    try:
        tf = os.path.join(wd, 'trace.ndjson')
        with open(tf, 'w') as f:
            f.write('\n'.join(lines) + '\n')
        mod_t = '''---- MODULE MC_FilenamesTrace ----
EXTENDS FilenamesTrace
MCWordsFirst == %s
MCResetOnSkip == %s
MCLazyInitial == %s
====
''' % tuple('TRUE' if x else 'FALSE' for x in variant)
        rest = tlc.run('MC_FilenamesTrace', cfg_text=CFG_TRACE if not os.environ.get('C15_ASBUILT') else CFG_TRACE.replace('INVARIANT RefinesRule\n', ''), extra_modules={'MC_FilenamesTrace.tla': mod_t},
                       workdir=wd, workers=1, env={'TRACE_FILE': tf}, timeout=3000)
    finally:
        import shutil
        shutil.rmtree(wd, ignore_errors=True)
    chk.add_tlc(rest, 'trace-validation(%d traces)' % ntr)
    rej = [p for tag, p in rest.prints if tag == 'REJ']
    if not rej:
        if not rest.violated:
            raise MachineryError('C15: trace validation printed no verdict:\n' + rest.out[-3000:])
        rej = [{}]      # TLC stopped at the invariant violation before the verdict was printed: reported below
    rejected = rej[-1]
    chk.traces += ntr
    chk.evaluations += ntr
    if rest.violated:
        chk.violation('trace-invariant:' + ','.join(rest.violated),
                      'an invariant failed on a recorded execution: %s\n%s' % (rest.violated, rest.trace_text[:3000]))
    for tid_s, reached in (rejected.items() if isinstance(rejected, dict) else []):
        rec = json.loads(lines[int(tid_s) - 1])
        k = int(reached) - 1
        t = tmap[rec['t']['id']]
        bs = [e['b'] for e in rec['ev']]
        got = [e['r'] for e in rec['ev']]
        chk.violation(_signature(t, rec['c'], bs, k, got, None),
                      'recorded trace rejected by the specification at request %d: template %r config %s requests %s results %s'
                      % (k + 1, rec['src'], rec['c'], _b(bs), [_r(x) for x in got]),
                      rec)


def _b(bs):
    return [dict((k, ''.join(v)) for k, v in b.items() if v != UNB) for b in bs]


def _r(r):
    return ''.join(r) if r and len(r[0]) == 1 else r


def _has_skip(t, c, bs, want):
    a = t.abstract()
    return len(a['wild']) > 1 or len(a['statics']) > 0


def _signature(t, c, bs, k, got, want):
    """Identify the failing input class: template shape feature + kind of disagreement."""
    g = got[k]
    if g and g[0] == 'EXC':
        return 'exception:%s' % g[1]
    kind = 'error-vs-name' if g == ERR else ('none' if g == NONE else 'name')
    feats = []
    a = t.abstract()
    alts = a['statics'] + a['wild']
    if any(p['k'] == 'var' and p['fmt'] for al in alts for p in al):
        feats.append('wordlimit')
    if len(a['wild']) > 1:
        feats.append('alts')
    return 'replay:%s:%s' % (kind, '+'.join(feats))

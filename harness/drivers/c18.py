"""C18 -- the index lists every entry exactly once, under its key, in collation order.

spec -> code : Index.tla: for keys of mixed case, accented, numeric and symbol initials, sort@display keys, quoted special characters, 1-3
               levels and three page formats, TLC enumerates every sequence of up to MaxEntries \\index entries, checks the machine
               (IndexEntry ordering with a stable sort, the prefix-merge loop, the heading loop) against the rule (EveryEntryOnceUnderItsPath,
               SiblingsSortedByRank, OneGroupPerHeading) and prints the resulting tree and headings; each is concretised as a document with the
               entries scattered over its text ending in \\printindex, parsed, and the printindex node compared: nodes in order with display
               text, sort key, one page per occurrence in document order with see flags, and the group headings.  The collation ranks the
               specification uses are computed by the harness with its own copy of plasTeX's collator selection.
               SplitColumns.tla: every sequence of entry sizes x column count is checked by TLC (partition in order, exact column count) and
               replayed on the real splitColumns.
"""
import os
import random

from .. import tlc
from ..core import MachineryError, pmap

KEYS = {
    'alpha': ('alpha', 'alpha', 'alpha'),
    'Beta': ('Beta', 'Beta', 'Beta'),
    'elan': ('élan', 'élan', 'élan'),
    'echo': ('echo', 'echo', 'echo'),
    'zeta': ('zeta', 'zeta', 'zeta'),
    'one': ('1one', '1one', '1one'),
    'plus': ('+plus', '+plus', '+plus'),
    'under': ('_under', '_under', r'\_under'),
    'sortdisp': ('beta', 'ZZZ', 'beta@ZZZ'),
    'quoted': ('a!b', 'a!b', 'a"!b'),
    'under2': ('_other', '_other', r'\_other'),
    'sd1': ('sym', 'Aleph', 'sym@Aleph'),
    'sd2': ('sym', 'Beth', 'sym@Beth'),
    'boldalpha': ('alpha', 'alpha*b', r'alpha@\textbf{alpha}'),      # same sort key and same display TEXT as alpha, different markup
    'sub': ('sub', 'sub', 'sub'),
    'Sub2': ('Sub2', 'Sub2', 'Sub2'),
}
PATHS = [['alpha'], ['alpha', 'sub'], ['alpha', 'Sub2'], ['alpha', 'sub', 'Sub2'], ['Beta'], ['elan'], ['echo'], ['zeta'], ['one'], ['plus'],
         ['under'], ['under2'], ['sortdisp'], ['quoted'], ['sd1'], ['sd2'], ['Beta', 'sub'], ['zeta', 'sub', 'Sub2'], ['alpha', 'sd1'], ['alpha', 'sd2'],
         # two top-level keys with the same sort key and different display text, with sub-entries that interleave
         ['sd1', 'alpha'], ['sd2', 'echo'], ['sd1', 'zeta'], ['boldalpha']]


def collator():
    """own copy of the selection rule of plasTeX/Base/LaTeX/Index.py"""
    try:
        try:
            from pyuca import Collator_10_0_0
        except ImportError:
            from pyuca.collator import Collator_10_0_0
        return Collator_10_0_0().sort_key
    except ImportError:
        return lambda x: x.lower()


def initial(sort):
    import string
    try:
        from unidecode import unidecode
    except ImportError:
        unidecode = lambda s: s
    try:
        t = unidecode(sort[0]).upper()
    except IndexError:
        return 'Symbols'
    if t in string.ascii_letters:
        return t
    if t == '_':
        return '_ (Underscore)'
    return 'Symbols'


def code_collator():
    """what the code under test selected"""
    import importlib
    from plasTeX import TeXDocument
    TeXDocument()
    I = importlib.import_module('plasTeX.Base.LaTeX.Index')
    return I.collator


def mc_module():
    strings = sorted(set(s for k in KEYS.values() for s in k[:2]))
    col0 = code_collator()
    col = lambda x: col0(x.replace('*b', ''))          # the *b suffix stands for markup: it does not take part in collation
    written = sorted(set(v[2].split('@')[-1] for v in KEYS.values()))
    tie = dict((v[1], written.index(v[2].split('@')[-1]) + 1) for v in KEYS.values())
    keyed = sorted(set(tuple(col(s)) if not isinstance(col(s), str) else col(s) for s in strings))
    rank = dict((s, keyed.index(tuple(col(s)) if not isinstance(col(s), str) else col(s)) + 1) for s in strings)

    def q(s):
        return '"' + s.replace('\\', '\\\\').replace('"', '\\"') + '"'
    return '''---- MODULE MC_Index ----
EXTENDS Index
MCKeys == %s
MCRank == %s
MCInitial == %s
MCTie == %s
MCPaths == {%s}
====
''' % ('(' + ' @@ '.join('%s :> [sort |-> %s, disp |-> %s]' % (q(n), q(v[0]), q(v[1])) for n, v in KEYS.items()) + ')',
       '(' + ' @@ '.join('%s :> %d' % (q(s), r) for s, r in rank.items()) + ')',
       '(' + ' @@ '.join('%s :> %s' % (q(v[0]), q(initial(v[0]))) for v in KEYS.values()) + ')',
       '(' + ' @@ '.join('%s :> %d' % (q(k), n) for k, n in tie.items()) + ')',
       ', '.join('<<' + ', '.join(q(k) for k in p) + '>>' for p in PATHS))


CFG = '''CONSTANTS
  Keys <- MCKeys
  Rank <- MCRank
  Initial <- MCInitial
  Tie <- MCTie
  TotalOrder = %s
  Paths <- MCPaths
  MaxEntries = %d
  Cols = 2
  Fmts = {%s}
INIT Init
NEXT Next
CHECK_DEADLOCK FALSE
INVARIANT EveryEntryOnceUnderItsPath
INVARIANT SiblingsSortedByRank
INVARIANT OneGroupPerHeading
INVARIANT Emit
'''
CFG_SPLIT = '''CONSTANTS
  MaxLen = %d
  MaxSize = %d
  MaxCols = 4
INIT Init
NEXT Next
CHECK_DEADLOCK FALSE
INVARIANT ColumnsPartitionInOrder
INVARIANT ExactlyCols
INVARIANT Emit
'''


def concretise(beh):
    out = [r'\documentclass{article}\usepackage{makeidx}\makeindex\begin{document}\section{One}']
    for i, e in enumerate(beh['entries']):
        text = '!'.join(KEYS[k][2] for k in e['path'])
        if e['fmt'] == 'see':
            text += '|see{alpha}'
        elif e['fmt'] == 'textbf':
            text += '|textbf'
        out.append('Word%d\\index{%s} ' % (i + 1, text))
        if i % 2 == 1:
            out.append('\n\n\\section{More %d}' % i)
    out.append(r'\printindex\end{document}')
    return ''.join(out)


def replay_one(beh):
    from plasTeX.TeX import TeX
    from plasTeX import TeXDocument
    src = concretise(beh)
    d = TeXDocument()
    t = TeX(d)
    t.input(src)
    try:
        t.parse()
    except Exception as ex:
        return 'raise', 'document raised %s: %s\n%s' % (type(ex).__name__, ex, src)
    pis = d.getElementsByTagName('printindex')
    if len(pis) != 1:
        return 'shape', 'no printindex node in\n%s' % src
    pi = pis[0]
    sites = {}
    for i, n in enumerate(d.userdata.get('index', [])):
        sites[id(n.node)] = i + 1
    got = []

    def walk(node, path):
        for c in node.childNodes:
            if not hasattr(c, 'sortkey'):
                continue
            bold = any(getattr(x, 'nodeName', None) == 'textbf' for x in c.key.childNodes) if hasattr(c.key, 'childNodes') else False
            p = path + [{'sort': str(c.sortkey), 'disp': str(c.key.textContent) + ('*b' if bold else '')}]
            pages = []
            for pg in c.pages:
                fmt = 'see' if pg.see else 'none'
                pages.append({'site': sites.get(id(pg._cr_node), -1), 'see': pg.see})
            got.append({'path': p, 'pages': pages})
            walk(c, p)
    walk(pi, [])
    want = [{'path': n['path'], 'pages': [{'site': pg['site'], 'see': pg['fmt'] == 'see'} for pg in (n['pages'] or [])]} for n in beh['tree']]
    if got != want:
        k = next((i for i in range(min(len(got), len(want))) if got[i] != want[i]), min(len(got), len(want)))
        kind = 'order' if sorted(map(repr, got)) == sorted(map(repr, want)) else 'content'
        return 'tree:' + kind, 'index line %d is %s, the entries give %s (whole index %s vs %s) in\n%s' % (
            k + 1, got[k] if k < len(got) else 'missing', want[k] if k < len(want) else 'none',
            [(n['path'][-1]['disp'], len(n['pages'])) for n in got], [(n['path'][-1]['disp'], len(n['pages'])) for n in want], src)
    heads = [g.title for g in pi.groups]
    if heads != list(beh['headings']):
        return 'headings', 'headings %s, specification %s in\n%s' % (heads, beh['headings'], src)
    for g in pi.groups:
        flat = [x for col in g for x in col]
        tops = [c for c in pi.childNodes if hasattr(c, 'sortkey') and initial(str(c.sortkey)) == g.title]
        if [id(x) for x in flat] != [id(x) for x in tops]:
            return 'columns', 'the columns of group %s are not a partition of its entries in order, in\n%s' % (g.title, src)
    return 'ok', ''


class _Stub(object):
    def __init__(self, n, i):
        self.totallen = n
        self.i = i


def replay_split(beh):
    import importlib
    from plasTeX import TeXDocument
    IndexUtils = importlib.import_module('plasTeX.Base.LaTeX.Index').IndexUtils
    items = [_Stub(n, i + 1) for i, n in enumerate(beh['sizes'])]
    try:
        out = IndexUtils.splitColumns(None, items, beh['cols'])
    except Exception as ex:
        return 'raise', 'splitColumns(sizes %s, cols %d) raised %s: %s' % (beh['sizes'], beh['cols'], type(ex).__name__, ex)
    got = [[x.i for x in col] for col in out]
    want = [list(c) if c else [] for c in beh['split']]
    if got != want:
        return 'split', 'splitColumns(sizes %s, cols %d) = %s, specification %s' % (beh['sizes'], beh['cols'], got, want)
    return 'ok', ''


def run(chk):
    tier, seed = chk.tier, chk.seed
    chk.rule = ('index: every sequence of up to MaxEntries entries over 13 key paths x 3 formats; non-trivial = at least two entries sharing a '
                'prefix or a heading; columns: every size sequence x column count; distinct by content')
    chk.assumptions = ['the collation ranks given to TLC are computed by the harness from the collator the code under test selected; the harness also '
                       'computes the collator with its own copy of the selection rule and reports a disagreement as a violation',
                       'page references are identified by the position of the \\index command in the document']
    # the collator the code selected must be the one the documented selection rule gives
    probe = ['zeta', 'echo', 'élan', 'Echo', 'alpha', 'Beta']
    mine, theirs = collator(), code_collator()
    if sorted(probe, key=mine) != sorted(probe, key=theirs):
        chk.violation('collator-selection', 'the index collator orders %s as %s; the selection rule (UCA via pyuca when importable) gives %s'
                      % (probe, sorted(probe, key=theirs), sorted(probe, key=mine)), probe)
    TO = 'FALSE' if os.environ.get('C18_ASBUILT') else 'TRUE'
    ALLF = '"none", "see", "textbf"'
    maxe = 3
    behs = []
    seenb = set()
    for me, fm in ([(2, ALLF), (3, '"none"')] if tier == 'quick' else [(3, ALLF)]):
        res = tlc.run('MC_Index', cfg_text=CFG % (TO, me, fm), extra_modules={'MC_Index.tla': mc_module()}, timeout=3400, heap='12g')
        chk.add_tlc(res, 'index(MaxEntries=%d,formats=%s)' % (me, fm))
        if not res.ok:
            chk.violation('design:' + ','.join(res.violated or ['error']),
                          'TLC found a counterexample in the Index design: %s\n%s' % (res.violated, res.trace_text[:2500]))
        for b in res.beh:
            k = repr(b['entries'])
            if k not in seenb:
                seenb.add(k)
                behs.append(b)
    # longer sequences by simulation
    nsim, dsim = (600, 6) if tier == 'quick' else (6000, 8)
    rs = tlc.run('MC_Index', cfg_text=CFG % (TO, dsim, ALLF), extra_modules={'MC_Index.tla': mc_module()}, simulate=nsim, depth=dsim + 2, seed=seed + 3,
                 timeout=3400, heap='8g', workers=4)
    chk.add_tlc(rs, 'simulate(num=%d,depth=%d)' % (nsim, dsim))
    if rs.violated:
        chk.violation('design:sim:' + ','.join(rs.violated), 'TLC simulation found a counterexample: %s\n%s' % (rs.violated, rs.trace_text[:2500]))
    seen = set()
    for b in rs.beh:
        k = repr(b['entries'])
        if k not in seen and len(b['entries']) > maxe:
            seen.add(k)
            behs.append(b)
    if not behs:
        raise MachineryError('C18: no index behaviours emitted')
    results = pmap(replay_one, behs, chunksize=50)
    for beh, (kind, msg) in zip(behs, results):
        nt = len(beh['entries']) >= 2
        chk.case(beh['entries'], nt, {'document': concretise(beh)[80:400], 'headings': beh['headings']} if len(beh['entries']) >= 4 and len(chk.samples) < 4 else None)
        chk.traces += 1
        if kind != 'ok':
            acc = any('elan' in e['path'] for e in beh['entries'])
            chk.violation('replay:%s%s' % (kind, ':accented' if acc else ''), msg, beh['entries'])
    ml, ms = (5, 3) if tier == 'quick' else (6, 4)
    rc = tlc.run('SplitColumns', cfg_text=CFG_SPLIT % (ml, ms), timeout=3400, heap='8g')
    chk.add_tlc(rc, 'splitColumns(len<=%d,size<=%d,cols<=4)' % (ml, ms))
    if not rc.ok:
        chk.violation('design:split:' + ','.join(rc.violated or ['error']), 'SplitColumns: %s\n%s' % (rc.violated, rc.trace_text[:2000]))
    results = pmap(replay_split, rc.beh, chunksize=500)
    for beh, (kind, msg) in zip(rc.beh, results):
        chk.case(['split', beh['sizes'], beh['cols']], len(beh['sizes']) >= 2)
        chk.traces += 1
        if kind != 'ok':
            chk.violation('split:' + kind, msg, beh)
    chk.exhaustive = True

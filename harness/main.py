"""./check <Cnn> [--tier quick|thorough] [--seed N] [--replay PATH]

exit 0: property held on everything explored (KNOWN-FINDING lines possible)
exit 1: VIOLATION property=<id> replay=<path>
exit 2: the machinery itself failed (never reported as a violation)
"""
import argparse
import importlib
import os
import sys
import traceback

HERE = os.path.dirname(os.path.abspath(__file__))
sys.path.insert(0, os.path.dirname(HERE))

from harness import core, tlc  # noqa


def main():
    ap = argparse.ArgumentParser()
    ap.add_argument('pid')
    ap.add_argument('--tier', default=os.environ.get('VERIF_TIER', 'quick'), choices=['quick', 'thorough'])
    ap.add_argument('--seed', type=int, default=int(os.environ.get('VERIF_SEED', '0') or 0))
    ap.add_argument('--replay', default=None)
    a = ap.parse_args()
    pid = a.pid.upper()
    core.setup_repo_path()
    try:
        drv = importlib.import_module('harness.drivers.' + pid.lower())
        if a.replay:
            return show_replay(pid, drv, a.replay)
        chk = core.Check(pid, a.tier, a.seed, getattr(drv, 'LEVEL', 'model_checking'))
        drv.run(chk)
        return chk.finish()
    except (core.MachineryError, tlc.TLCError) as e:
        print('MACHINERY-FAILURE property=%s: %s' % (pid, e))
        return 2
    except Exception:
        traceback.print_exc()
        print('MACHINERY-FAILURE property=%s: unexpected exception in the harness' % pid)
        return 2


def show_replay(pid, drv, path):
    """A replay file holds the failing input of one violation class (signature, description with the concrete input, payload).
    Print it; a driver that defines replay_case(payload) re-executes it against the current tree (exit 1 while it still fails)."""
    import json
    rec = json.load(open(path))
    print('property  : %s' % rec.get('property', pid))
    print('signature : %s' % rec.get('signature'))
    print('what      : %s' % rec.get('what'))
    print('payload   : %s' % json.dumps(rec.get('payload'), ensure_ascii=False)[:4000])
    fn = getattr(drv, 'replay_case', None)
    if fn is None:
        print('(this driver re-executes whole behaviour families only: run ./check %s --tier quick --seed <seed of the run> to reproduce)' % pid)
        return 0
    ok, msg = fn(rec.get('payload'))
    if not ok:
        print('VIOLATION property=%s replay=%s' % (pid, path))
        print('  ' + msg)
        return 1
    print('the recorded input no longer violates the property')
    return 0


if __name__ == '__main__':
    sys.exit(main())

"""Generators of macro-language programs (NF-MACRO / NF-COND / NF-NUM, DESIGN.md section 4) as token lists,
and their printing as LaTeX source.  Tokens: one-character strings, control sequences '\\name', parameter
tokens '#1'..'#9', '##'."""
import random

NAMES = ['\\vxa', '\\vxb', '\\vxc', '\\vxd', '\\vxe']
CHARS = list('xyzuvw')


def to_source(toks):
    out = []
    for i, t in enumerate(toks):
        out.append(t)
        if len(t) > 1 and t[0] == '\\' and t[-1].isalpha():
            nxt = toks[i + 1] if i + 1 < len(toks) else ''
            if nxt[:1].isalpha():
                out.append(' ')
    return ''.join(out)


class Gen(object):
    def __init__(self, rnd, conds=False, maxdepth=3):
        self.rnd = rnd
        self.conds = conds
        self.maxdepth = maxdepth
        self.defs = {}          # name -> pattern kind (visible definitions, flat view used for calls)
        self.scopes = [set()]   # names with a local binding per open group (NF-MACRO e)
        self.fresh = 0
        self.switches = []
        self.everdefined = set()
        self.order = {}

    # --- patterns ---------------------------------------------------------------------
    PATTERNS = {
        'p0': ([], 0),
        'u1': (['#1'], 1),
        'u2': (['#1', '#2'], 2),
        'u3': (['#1', '#2', '#3'], 3),
        'd1': (['#1', '.'], 1),
        'd2': (['#1', '.', '#2', ';'], 2),
        'br': (['[', '#1', ']'], 1),
        'ld': (['.', '#1', ','], 1),
        'ud': (['#1', '#2', ';'], 2),
        'u9': (['#1', '#2', '#3', '#4', '#5', '#6', '#7', '#8', '#9'], 9),
    }

    def text(self, n=None, avoid=()):
        n = n if n is not None else self.rnd.randint(1, 3)
        return [self.rnd.choice([c for c in CHARS if c not in avoid]) for _ in range(n)]

    def arg_tokens(self, depth, avoid=(), nparams=0):
        """content of one actual argument: characters, parameters of the enclosing body, a nested call"""
        r = self.rnd.random()
        if nparams and r < 0.3:
            return ['#%d' % self.rnd.randint(1, nparams)]
        if r < 0.5 and depth < self.maxdepth and self.callable_names():
            return self.call(depth + 1, nparams)
        return self.text(avoid=avoid)

    def callable_names(self):
        return [n for n in self.defs]

    def call(self, depth, nparams=0, name=None):
        name = name or self.rnd.choice(self.callable_names())
        kind = self.defs[name]
        toks = [name]
        if kind == 'nc':         # \newcommand with n args, optional first
            n, hasopt = self.ncinfo[name]
            k = n
            if hasopt:
                k -= 1
                r = self.rnd.random()
                if r < 0.15:
                    toks += ['[', ']']                       # present but empty: NOT the default
                elif r < 0.55:
                    toks += ['['] + self.text(avoid=']') + [']']
            for _ in range(k):
                toks += self.blank(toks) + ['{'] + self.arg_tokens(depth, nparams=nparams) + ['}']
            return toks
        pat, n = self.PATTERNS[kind]
        i = 0
        while i < len(pat):
            p = pat[i]
            if p.startswith('#'):
                # delimited?
                delim = pat[i + 1] if i + 1 < len(pat) and not pat[i + 1].startswith('#') else None
                if delim is None:
                    toks += self.blank(toks)
                    a = self.arg_tokens(depth, nparams=nparams)
                    if len(a) == 1 and not a[0].startswith('\\') and not a[0].startswith('#') and self.rnd.random() < 0.5:
                        toks += a                        # a single token needs no braces
                    else:
                        toks += ['{'] + a + ['}']
                else:
                    # text not containing the delimiter, not a single brace group (NF-MACRO b)
                    a = self.text(avoid=(delim,))
                    if self.rnd.random() < 0.3:
                        a = a + ['{'] + self.text(avoid=(delim,)) + ['}'] + self.text(1, avoid=(delim,))
                    toks += a
            else:
                toks.append(p)
            i += 1
        return toks

    def blank(self, toks):
        """sometimes a blank in front of an undelimited argument (never directly after a control word, where the tokenizer eats it)"""
        last = toks[-1]
        if self.rnd.random() < 0.3 and last != ' ' and not (len(last) > 1 and last[0] == '\\' and last[-1].isalpha()):
            return [' ']
        return []

    def body(self, depth, nparams):
        out = []
        if nparams and depth == 0 and self.rnd.random() < 0.12:
            return out          # a macro that swallows its arguments (\def\gob#1{})
        for _ in range(self.rnd.randint(1, 4)):
            r = self.rnd.random()
            if r < 0.35:
                out += self.text(1)
            elif r < 0.6 and nparams:
                out.append('#%d' % self.rnd.randint(1, nparams))
            elif r < 0.75 and self.callable_names() and depth < self.maxdepth:
                out += self.call(depth + 1, nparams)
            elif r < 0.85:
                out += ['{'] + self.text() + (['#%d' % self.rnd.randint(1, nparams)] if nparams else []) + ['}']
            elif r < 0.92 and nparams:
                # an inner definition with its own parameter (## in the outer body), used at once
                self.fresh += 1
                inner = '\\vxi' + 'abcdefghij'[self.fresh % 10]
                out += ['{', '\\def', inner, '##', '1', '{', '<', '##', '1', '#%d' % self.rnd.randint(1, nparams), '>', '}', inner] + self.text(1) + ['}']
            elif self.conds and depth < self.maxdepth:
                out += self.conditional(depth + 1, nparams)
            else:
                out += self.text(1)
        return out

    def definition(self, depth, top):
        """a definition statement; returns tokens"""
        name = self.rnd.choice(NAMES)
        # the body may not call the name being (re)defined, directly or through a macro whose body calls it
        # (no recursion, NF-MACRO a): a redefined name and everything defined after its last definition that
        # might call it are hidden while the body is generated -- simplest sound choice: names are defined once
        redefine = False
        if name in self.defs or name in self.everdefined:
            free = [n for n in NAMES if n not in self.everdefined]
            if name in self.defs and name in self.order and self.defs[name] != 'nc' and self.rnd.random() < 0.5:
                # redefinition: the new body may only call names first defined BEFORE this one (no recursion
                # through bodies that already call it)
                redefine = True
            elif not free:
                return self.text()
            else:
                name = free[0]
        self.everdefined.add(name)
        self.order.setdefault(name, len(self.order))
        hidden = {}
        if redefine:
            for n in list(self.defs):
                if self.order.get(n, 10 ** 6) >= self.order[name]:
                    hidden[n] = self.defs.pop(n)
        try:
            return self._definition(name, depth, top and not redefine, hidden.get(name) if redefine else None)
        finally:
            for n, k in hidden.items():
                if n != name:
                    self.defs.setdefault(n, k)

    def _definition(self, name, depth, top, forced_kind=None):
        r = self.rnd.random()
        if top and len(self.scopes) == 1 and r < 0.2:
            n = self.rnd.randint(0, 3)
            hasopt = n > 0 and self.rnd.random() < 0.5
            b = self.body(depth, n)
            cmd = '\\newcommand'
            toks = [cmd, '{', name, '}'] + (['[', str(n), ']'] if n else []) + (['['] + self.text(avoid=']') + [']'] if hasopt else []) + ['{'] + b + ['}']
            self.defs[name] = 'nc'
            self.ncinfo[name] = (n, hasopt)
            return toks
        # a redefinition keeps the parameter pattern: bodies written earlier call it with that pattern
        kind = forced_kind or self.rnd.choice(list(self.PATTERNS))
        pat, n = self.PATTERNS[kind]
        glob = self.rnd.random() < 0.25 and not any(name in s for s in self.scopes)     # the document body is a group too
        # body may only call earlier names (no recursion): generate before registering
        b = self.body(depth, n)
        toks = ['\\gdef' if glob else '\\def', name] + pat + ['{'] + b + ['}']
        self.defs[name] = kind
        if not glob:
            self.scopes[-1].add(name)
        return toks

    ncinfo = {}

    def statement(self, depth):
        r = self.rnd.random()
        names = self.callable_names()
        if r < 0.3 or not names:
            return self.definition(depth, depth == 0)
        if r < 0.6:
            return self.call(depth)
        if r < 0.68:
            return self.text()
        if r < 0.78 and depth < self.maxdepth:
            # a group: definitions inside are local
            saved = dict(self.defs), dict(self.ncinfo)
            self.scopes.append(set())
            inner = []
            for _ in range(self.rnd.randint(1, 3)):
                inner += self.statement(depth + 1)
            self.scopes.pop()
            # local definitions disappear; global ones made inside survive: to stay simple and safe, names
            # (re)defined inside a group are not called after it (their meaning depends on local/global mix)
            changed = [n for n in self.defs if self.defs.get(n) != saved[0].get(n)]
            self.defs, self.ncinfo = saved
            for n in changed:
                self.defs.pop(n, None)
            op, cl = self.rnd.choice([('{', '}'), ('\\begingroup', '\\endgroup')])
            return [op] + inner + [cl]
        if r < 0.84:
            # alias
            src = self.rnd.choice(names)
            self.fresh += 1
            alias = '\\vxl' + 'abcdefghijklmnopqrstuvwxyz'[self.fresh % 26] + 'abcdefghijklmnopqrstuvwxyz'[(self.fresh // 26) % 26]
            self.defs[alias] = self.defs[src]
            if src in self.ncinfo:
                self.ncinfo[alias] = self.ncinfo[src]
            self.scopes[-1].add(alias)
            return ['\\let', alias] + (['='] if self.rnd.random() < 0.5 else []) + [src] + self.call(depth, name=alias)
        if r < 0.9:
            n = self.rnd.choice(names)
            c = self.call(depth, name=n)
            return ['\\csname'] + list(n[1:]) + ['\\endcsname'] + c[1:]
        if r < 0.95:
            # \expandafter: the arguments of a macro come from a parameterless macro
            cands = [n for n in names if self.defs[n] in ('u1', 'u2')]
            if cands:
                n = self.rnd.choice(cands)
                k = self.PATTERNS[self.defs[n]][1]
                args = []
                for _ in range(k):
                    args += ['{'] + self.text() + ['}']
                self.fresh += 1
                p = '\\vxp' + 'abcdefghijklmnopqrstuvwxyz'[self.fresh % 26] + 'abcdefghijklmnopqrstuvwxyz'[(self.fresh // 26) % 26]
                t = ['\\def', p, '{'] + args + ['}', '\\expandafter', n, p]
                if self.rnd.random() < 0.6:
                    t += ['\\expandafter', n, p]              # the provider macro must be unchanged by the first use
                if self.rnd.random() < 0.5:
                    t += ['<', p, '>']
                return t
            return self.text()
        if self.conds:
            return self.conditional(depth, 0)
        # \expandafter\def\csname..\endcsname
        self.defs['\\vxq'] = 'u1'
        self.scopes[-1].add('\\vxq')
        return ['\\expandafter', '\\def', '\\csname', 'v', 'x', 'q', '\\endcsname', '#1', '{', '(', '#1', ')', '}', '\\vxq'] + self.text(1)

    # --- conditionals -------------------------------------------------------------------
    def number(self, lo=-2, hi=5):
        v = self.rnd.randint(lo, hi)
        r = self.rnd.random()
        if r < 0.25 and v >= 0:
            return v, ['\\vxn' + 'abcdef'[v]]        # macro-produced number (defined in the preamble of the program)
        return v, list(str(v))

    def conditional(self, depth, nparams):
        rnd = self.rnd
        kind = rnd.choice(['iftrue', 'iffalse', 'ifnum', 'ifodd', 'ifcase', 'ifx', 'ifdefined', 'switch', 'ifdim', 'ifnum', 'ifcase'])

        def branch():
            out = []
            for _ in range(rnd.randint(0, 2)):
                r = rnd.random()
                if r < 0.45:
                    out += self.text(1)
                elif r < 0.6:
                    out += ['\\gdef', '\\vxs', '{'] + self.text(1) + ['}']      # a side effect
                elif r < 0.7 and self.switches:
                    s = rnd.choice(self.switches)
                    out += ['\\' + s + rnd.choice(['true', 'false'])]
                elif r < 0.85 and depth < self.maxdepth + 1:
                    out += self.conditional(depth + 1, nparams)
                elif nparams:
                    out.append('#%d' % rnd.randint(1, nparams))
                else:
                    out += self.text(1)
            return out
        if kind == 'ifcase':
            v, toks = self.number(-2, 5)
            ncases = rnd.randint(1, 4)
            t = ['\\ifcase'] + toks + ['\\relax']
            for i in range(ncases):
                if i:
                    t.append('\\or')
                t += branch()
            if rnd.random() < 0.6:
                t += ['\\else'] + branch()
            return t + ['\\fi']
        if kind == 'iftrue':
            t = ['\\iftrue']
        elif kind == 'iffalse':
            t = ['\\iffalse']
        elif kind == 'ifnum':
            a, ta = self.number(0, 5)
            b, tb = self.number(0, 5)
            t = ['\\ifnum'] + ta + [rnd.choice(['<', '>', '='])] + tb + ['\\relax']
        elif kind == 'ifdim':
            t = ['\\ifdim', str(rnd.randint(0, 3)), 'p', 't', rnd.choice(['<', '>', '=']), str(rnd.randint(0, 3)), 'p', 't', '\\relax']
        elif kind == 'ifodd':
            a, ta = self.number(0, 5)
            t = ['\\ifodd'] + ta + ['\\relax']
        elif kind == 'ifx':
            if rnd.random() < 0.5:
                t = ['\\ifx', rnd.choice('xy'), rnd.choice('xy')]
            else:
                t = ['\\ifx', rnd.choice(['\\vxta', '\\vxtb', '\\vxtc']), rnd.choice(['\\vxta', '\\vxtb', '\\vxtc'])]
        elif kind == 'ifdefined':
            t = ['\\ifdefined', rnd.choice(['\\vxta', '\\vxundefined', '\\relax'])]
        else:
            # switches are declared in the prelude (a \\newif inside a skipped branch would leave the name undefined);
            # a nested \\newif is still exercised as skipped material by the scanner
            s = rnd.choice(self.switches)
            t0 = ['\\' + s + rnd.choice(['true', 'false'])] if rnd.random() < 0.4 else []
            if rnd.random() < 0.15:
                t0 = ['\\newif', '\\ifvxsz'] + t0
            t = t0 + ['\\if' + s]
        t += branch()
        if rnd.random() < 0.6:
            t += ['\\else'] + branch()
        return t + ['\\fi']


PRELUDE_CONDS = (['\\def', '\\vxna', '{', '0', '}', '\\def', '\\vxnb', '{', '1', '}', '\\def', '\\vxnc', '{', '2', '}',
                  '\\def', '\\vxnd', '{', '3', '}', '\\def', '\\vxne', '{', '4', '}', '\\def', '\\vxnf', '{', '5', '}',
                  '\\def', '\\vxta', '{', 'a', 'b', '}', '\\def', '\\vxtb', '{', 'a', 'b', '}', '\\def', '\\vxtc', '{', 'c', '}',
                  '\\gdef', '\\vxs', '{', '0', '}', '\\newif', '\\ifvxsa', '\\newif', '\\ifvxsb', '\\newif', '\\ifvxsc', '\\vxsbtrue'])


def program(rnd, conds=False, nstmt=None, maxdepth=3):
    g = Gen(rnd, conds=conds, maxdepth=maxdepth)
    g.ncinfo = {}
    if conds:
        g.switches = ['vxsa', 'vxsb', 'vxsc']
    toks = list(PRELUDE_CONDS) if conds else []
    for _ in range(nstmt or rnd.randint(2, 7)):
        if conds and rnd.random() < 0.08:
            # a switch declared again (it is false at that point, so a fresh switch and the old one agree)
            sw = rnd.choice(g.switches)
            toks += ['\\' + sw + 'false', '\\newif', '\\if' + sw]
            if rnd.random() < 0.7:
                toks += ['\\' + sw + 'true']
        elif conds and rnd.random() < 0.6:
            toks += g.conditional(0, 0)
        else:
            toks += g.statement(0)
    if conds:
        toks += ['|', '\\vxs']
        for s in g.switches:
            toks += ['\\if' + s, 'T', '\\else', 'F', '\\fi']
    return toks

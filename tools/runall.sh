#!/bin/sh
# run every registered quick check, print one line each
cd "$(dirname "$0")/.."
for id in $(/venv/bin/python -c "import json;print(' '.join(c['property_id'] for c in json.load(open('MANIFEST.json'))['checks']))"); do
  s=$(date +%s); out=$(./check $id --tier ${1:-quick} 2>&1); rc=$?; e=$(date +%s)
  echo "$id rc=$rc $((e-s))s $(echo "$out" | grep -c '^VIOLATION') violations; $(echo "$out" | tail -1 | cut -c1-160)"
done

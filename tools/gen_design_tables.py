#!/venv/bin/python
"""Regenerate the generated tables of DESIGN.md section 10 (findings, seeded changes) from known_findings.json and seeded/*/meta.json."""
import glob
import json
import os
import re

ROOT = os.path.dirname(os.path.dirname(os.path.abspath(__file__)))


def esc(s):
    return str(s).replace('|', '\\|').replace('\n', ' ')


def findings():
    rows = ['| id | prop | status | commit | what failed (input / history) |', '|---|---|---|---|---|']
    for f in json.load(open(os.path.join(ROOT, 'known_findings.json'))):
        rows.append('| %s | %s | %s | %s | %s |' % (f['id'], f['property'], f['status'], f.get('commit', '-'), esc(f['what'])[:420]))
    return '\n'.join(rows)


def seeded():
    rows = ['| change | files | what it breaks / what it needs | caught by (signatures of the quick check) |', '|---|---|---|---|']
    for d in sorted(glob.glob(os.path.join(ROOT, 'seeded', '*', 'meta.json'))):
        m = json.load(open(d))
        name = os.path.basename(os.path.dirname(d))
        caught = []
        for c, r in sorted(m.get('checks', {}).items()):
            if r.get('exit') == 1:
                sigs = [re.sub(r'^signature: ', '', s) for s in r.get('signatures', [])[:2]]
                caught.append('%s: %s' % (c, '; '.join(sigs)))
        rows.append('| %s | %s | %s -- needs: %s | %s |' % (name, esc(', '.join(os.path.basename(f) for f in m.get('files', []))), esc(m.get('summary', ''))[:260], esc(m.get('needs', ''))[:200],
                                                           esc(' / '.join(caught)) if caught else 'NOT DETECTED'))
    return '\n'.join(rows)


def main():
    p = os.path.join(ROOT, 'DESIGN.md')
    s = open(p).read()
    for tag, fn in (('findings', findings), ('seeded', seeded)):
        a, b = '<!-- BEGIN GENERATED %s -->' % tag, '<!-- END GENERATED %s -->' % tag
        if a in s and b in s:
            s = s[:s.index(a) + len(a)] + '\n' + fn() + '\n' + s[s.index(b):]
    open(p, 'w').write(s)


if __name__ == '__main__':
    main()

"""Parse every TLA+ module under spec/ with SANY (in a scratch copy)."""
import os, sys, shutil
sys.path.insert(0, os.path.dirname(os.path.dirname(os.path.abspath(__file__))))
from harness import tlc
from concurrent.futures import ThreadPoolExecutor
wd = tlc.make_workdir()
try:
    mods = sorted(f for f in os.listdir(wd) if f.endswith('.tla'))
    def one(f):
        ok, out = tlc.sany(os.path.join(wd, f))
        return f, ok, out
    bad = 0
    with ThreadPoolExecutor(8) as ex:
        for f, ok, out in ex.map(one, mods):
            print('%-28s %s' % (f, 'ok' if ok else 'FAILED'))
            if not ok:
                bad += 1
                print(out[-2000:])
    sys.exit(1 if bad else 0)
finally:
    shutil.rmtree(wd, ignore_errors=True)

#!/venv/bin/python
"""Generate MANIFEST.json from the table below (kept valid at all times)."""
import json, os, subprocess
V = os.path.dirname(os.path.dirname(os.path.abspath(__file__)))
props = [json.loads(l) for l in open(os.path.join(V, 'properties.jsonl'))]
ids = [p['id'] for p in props]

CLAIMED = {
 # id: (category, text, design_ref, level_note, technique)
 'C15': ('model_checking',
         'TLC checks exhaustively (bounded request sequences x template family x configurations) that the machine '
         'layer Filenames.tla, shaped like the generator code, refines the documented contract FilenamesRules.tla and '
         'satisfies NeverTwice/NumSuccessive/Clean/ExtensionAdded/Terminates; every TLC behaviour is replayed on the real '
         'plasTeX.Filenames and random long call/return traces of the real generator are validated by TLC against '
         'FilenamesTrace.tla with all invariants evaluated at every step.',
         'DESIGN.md#c15',
         'Trusted: TLC, the transcription of the documented contract into FilenamesRules.tla, the concretisation of '
         'abstract templates into template strings (checked against parseFilenames in three spellings).',
         'TLA+ spec (rule + machine layer) checked by TLC; spec->code behaviour replay; code->spec batched trace validation'),
}
NA = {}
try:
    from manifest_table import CLAIMED as C2, NA as N2   # filled in as properties are built
    CLAIMED.update(C2); NA.update(N2)
except ImportError:
    pass

hook_commits = []
try:
    out = subprocess.run(['git', '-C', '/repo', 'log', '--format=%h %s'], stdout=subprocess.PIPE).stdout.decode()
    hook_commits = [l.split()[0] for l in out.splitlines() if l.split(' ', 1)[1].startswith('verif hooks:')]
except Exception:
    pass

checks = []
for i in ids:
    if i in CLAIMED:
        cat, text, ref, note, tech = CLAIMED[i]
        checks.append({
            'property_id': i,
            'quick_cmd': './check %s --tier quick' % i,
            'thorough_cmd': './check %s --tier thorough' % i,
            'evidence_file': '/verif/evidence/%s.json' % i,
            'replay_cmd_template': './check %s --replay {path}' % i,
            'engine': 'tlc',
            'level_claimed': {'category': cat, 'text': text, 'design_ref': ref},
            'level_note': note,
            'technique': tech,
        })
na = [{'property_id': i, 'reason': NA.get(i, 'check not built yet in this session (build order in DESIGN.md section 9); nothing is claimed until it is green and non-vacuous')}
      for i in ids if i not in CLAIMED]
m = {
 'version': 1,
 'setup_cmd': './setup.sh',
 'hooks': {
   'guard': 'PLASTEX_VERIF',
   'enable': 'checks run /venv/bin/python with /repo first on sys.path and PLASTEX_VERIF=1 in the environment; nothing is compiled',
   'baseline_off_cmd': 'cd /repo && env -u PLASTEX_VERIF /venv/bin/python -m pytest -ra -q -p no:cacheprovider --timeout=900 --continue-on-collection-errors',
   'source_commits': hook_commits,
   'add_only': True,
 },
 'engines': [
   {'name': 'tlc', 'path': '/opt/veriftools/tla/tla2tools.jar', 'serves_properties': sorted(CLAIMED),
    'kind_free_text': 'TLC 1.8 explicit-state model checker on the TLA+ specifications in /verif/spec; Python conformance harness in /verif/harness replays TLC behaviours into plasTeX and validates recorded plasTeX traces with TLC'},
 ],
 'checks': checks,
 'notes': 'Exit codes: 0 held, 1 VIOLATION, 2 machinery failure. See DESIGN.md. known_findings.json lists fixed/known defects.',
 'not_applicable': na,
}
json.dump(m, open(os.path.join(V, 'MANIFEST.json'), 'w'), indent=1)
print('MANIFEST.json: %d checks, %d not_applicable' % (len(checks), len(na)))

#!/venv/bin/python
"""Run the repository's pinned test suite with the hook guard OFF and compare with BASELINE.json.
exit 0 iff every stable_pass test passes."""
import json, os, subprocess, sys, tempfile, xml.etree.ElementTree as ET
base = json.load(open('/root/.vp/BASELINE.json')) if os.path.exists('/root/.vp/BASELINE.json') else None
fd, path = tempfile.mkstemp(suffix='.xml'); os.close(fd)
env = dict(os.environ); env.pop('PLASTEX_VERIF', None)
cmd = ['/venv/bin/python', '-m', 'pytest', '-ra', '-q', '-p', 'no:cacheprovider', '--timeout=900',
       '--continue-on-collection-errors', '--junitxml=' + path]
p = subprocess.run(cmd, cwd='/repo', env=env, stdout=subprocess.PIPE, stderr=subprocess.STDOUT)
passed = set()
for tc in ET.parse(path).getroot().iter('testcase'):
    if not any(c.tag in ('failure', 'error', 'skipped') for c in tc):
        passed.add('%s::%s' % (tc.get('classname'), tc.get('name')))
os.unlink(path)
print(p.stdout.decode().splitlines()[-1])
if base:
    missing = [t for t in base['stable_pass'] if t not in passed]
    print('stable_pass=%d passed_now=%d missing=%d' % (len(base['stable_pass']), len(passed), len(missing)))
    for m in missing[:20]:
        print('  MISSING', m)
    sys.exit(1 if missing else 0)

#!/venv/bin/python
"""Confirm a seeded change and run our check against it.
usage: seed_eval.py <Cnn> <k> [--tier quick]
 1. in the scratch worktree /tmp/wt-<cnn>: demo passes on clean tree, fails with the patch, the pinned suite still has its 360 passes
 2. apply the patch to /repo, run ./check <Cnn>, revert /repo
 3. store everything under /verif/seeded/<Cnn>-<k>/
"""
import json, os, subprocess, sys, shutil, xml.etree.ElementTree as ET, tempfile
pid, k = sys.argv[1].upper(), sys.argv[2]
tier = 'quick'
checks = [pid]
store = k
for a in sys.argv[3:]:
    if a.startswith('--also='):
        checks += a[7:].split(',')
    if a.startswith('--as='):
        store = a[5:]
wt, out = '/tmp/wt-%s' % pid.lower(), '/tmp/out-%s' % pid.lower()
patch, demo, meta = '%s/patch_%s.diff' % (out, k), '%s/demo_%s.py' % (out, k), '%s/meta_%s.json' % (out, k)
def sh(cmd, cwd=None, env=None):
    p = subprocess.run(cmd, shell=True, cwd=cwd, stdout=subprocess.PIPE, stderr=subprocess.STDOUT, env=env)
    return p.returncode, p.stdout.decode('utf-8', 'replace')
env = dict(os.environ); env.pop('PLASTEX_VERIF', None)
sh('git checkout -- . && git clean -fdq', wt)
sh('git checkout -q --detach %s' % subprocess.run(['git', '-C', '/repo', 'rev-parse', 'HEAD'], stdout=subprocess.PIPE).stdout.decode().strip(), wt)
rc0, o0 = sh('/venv/bin/python %s' % demo, wt, env)
rca, oa = sh('git apply %s' % patch, wt)
if rca:
    print('PATCH DOES NOT APPLY to current HEAD:', oa); sys.exit(3)
rc1, o1 = sh('/venv/bin/python %s' % demo, wt, env)
fd, xml = tempfile.mkstemp(suffix='.xml'); os.close(fd)
sh('/venv/bin/python -m pytest -q -p no:cacheprovider --timeout=900 --continue-on-collection-errors --junitxml=%s' % xml, wt, env)
passed = set()
for tc in ET.parse(xml).getroot().iter('testcase'):
    if not any(c.tag in ('failure', 'error', 'skipped') for c in tc):
        passed.add('%s::%s' % (tc.get('classname'), tc.get('name')))
os.unlink(xml)
base = json.load(open('/root/.vp/BASELINE.json'))['stable_pass']
missing = [t for t in base if t not in passed]
sh('git checkout -- . && git clean -fdq', wt)
print('demo clean rc=%d, patched rc=%d; suite: %d of %d baseline tests pass with the patch' % (rc0, rc1, len(base) - len(missing), len(base)))
confirmed = rc0 == 0 and rc1 != 0 and not missing
results = {}
if confirmed:
    rc, o = sh('git -C /repo apply %s' % patch)
    assert rc == 0, o
    try:
        for c in checks:
            rcc, oc = sh('./check %s --tier %s' % (c, tier), '/verif')
            viol = [l for l in oc.splitlines() if l.startswith('VIOLATION')]
            sigs = [l.strip() for l in oc.splitlines() if l.strip().startswith('signature:')]
            results[c] = {'exit': rcc, 'violations': len(viol), 'signatures': sigs[:6]}
            print('check %s exit=%d %s' % (c, rcc, sigs[:4]))
            if rcc == 2:
                print(oc[-1500:])
    finally:
        sh('git -C /repo checkout -- .')
    d = '/verif/seeded/%s-%s' % (pid, store)
    os.makedirs(d, exist_ok=True)
    shutil.copy(patch, d + '/patch.diff'); shutil.copy(demo, d + '/demo.py')
    m = json.load(open(meta)) if os.path.exists(meta) else {}
    m.update({'property': pid, 'confirmed': {'demo_clean_rc': rc0, 'demo_patched_rc': rc1, 'baseline_tests_passing_with_patch': len(base) - len(missing)},
              'ran': ['cd %s && python demo.py (clean, patched)' % wt, 'pinned test suite in the worktree with the patch',
                      'git -C /repo apply patch.diff; ./check <id> --tier quick; git -C /repo checkout -- .'],
              'checks': results, 'detected': any(r['exit'] == 1 for r in results.values())})
    json.dump(m, open(d + '/meta.json', 'w'), indent=1)
else:
    print('NOT CONFIRMED'); print(o0[-500:]); print(o1[-500:]); print(missing[:5])

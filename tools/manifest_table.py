"""Per-property manifest entries: id -> (category, text, design_ref, level_note, technique)."""
TECH = 'TLA+ spec (rule + machine layer) checked by TLC; spec->code behaviour replay; code->spec batched trace validation'
CLAIMED = {
 'C06': ('model_checking',
         'TLC explores Dom.tla exhaustively (all edit sequences up to a bound over a pool of 4 elements, 2 text nodes, 1 fragment): '
         'the machine layer (method-by-method composition of the list steps the code performs, stale parent links, carrier '
         'fragments) equals the plain list-of-lists model after every action, and ParentOfChild/AtMostOnce/NormalizeProps/'
         'SiblingsConsistent/PositionConsistent hold.  One behaviour per distinct reachable state (thorough: also every path of '
         'length 2) is replayed on real plasTeX.DOM objects comparing childNodes, parentNode and text after every operation and '
         'all derived views at the end; seeded random edit sequences of length <= 40 on a pool of 10 nodes are validated by TLC '
         'against DomTrace.tla with all invariants evaluated at every step.',
         'DESIGN.md#c06',
         'Trusted: TLC, the list model in Dom.tla, positional re-binding of the new text nodes that normalize creates. NF-DOM '
         'restricts arguments to detached nodes, unused fragments or same-parent moves as the property states.',
         TECH),
}
NA = {}

"""Per-property manifest entries: id -> (category, text, design_ref, level_note, technique)."""
TECH = 'TLA+ spec (rule + machine layer) checked by TLC; spec->code behaviour replay; code->spec batched trace validation'
CLAIMED = {
 'C06': ('model_checking',
         'TLC explores Dom.tla exhaustively (all edit sequences up to a bound over a pool of 4 elements, 2 text nodes, 1 fragment): '
         'the machine layer (method-by-method composition of the list steps the code performs, stale parent links, carrier '
         'fragments) equals the plain list-of-lists model after every action, and ParentOfChild/AtMostOnce/NormalizeProps/'
         'SiblingsConsistent/PositionConsistent hold.  One behaviour per distinct reachable state (thorough: also every path of '
         'length 2) is replayed on real plasTeX.DOM objects comparing childNodes, parentNode and text after every operation and '
         'all derived views at the end; seeded random edit sequences of length <= 40 on a pool of 10 nodes are validated by TLC '
         'against DomTrace.tla with all invariants evaluated at every step.  DomAttr.tla: normalize through document fragments held as attribute values (machine = attributes first, then the no-children guard, then children; rule = no adjacent text anywhere reachable), every tree of the bounded shape set replayed on real nodes built with append only.',
         'DESIGN.md#c06',
         'Trusted: TLC, the list model in Dom.tla, positional re-binding of the new text nodes that normalize creates. NF-DOM '
         'restricts arguments to detached nodes, unused fragments or same-parent moves as the property states.',
         TECH),
}
NA = {}
CLAIMED['C04'] = ('model_checking',
    'TLC explores Context.tla exhaustively (all API operation sequences up to a bound over 2 names, 2 values, 2 characters x 4 '
    'codes, 6 macro objects incl. begin/end twins, \\foo/\\endfoo, parent-child and a document-level object) with explicit heap '
    'pointers for catcode tables: LookupInnermost (machine lookup = rule layer), RestoreOnClose, NoWriteToSharedTable, '
    'GlobalSurvives, CurIsTop.  One behaviour per distinct state is replayed on a real plasTeX.Context comparing depth, frame '
    'objects, lookups, category codes and the table-sharing partition after every call; generated documents (nestings of all '
    'scoping constructs with marker definitions, \\let, \\catcode, \\makeatletter) are parsed with the Context hooks on and the '
    'event traces validated by TLC against ContextTrace.tla (every invariant at every step, depth 1 at the end), and the printed '
    'marker text is compared with the plain scoping rule.',
    'DESIGN.md#c04',
    'Trusted: TLC, Context.tla, the projection in harness/drivers/c04.py; document traces are projected on two marker names and '
    'two characters. NF-NUM and NF-MACRO(e) restrict generated documents. Known finding F26 (aliases to characters are lexical).',
    TECH)
CLAIMED['C20'] = ('model_checking',
    'TLC explores Paux.tla exhaustively (all save/restore/fault sequences up to a bound over two renderers, two labels, abstract '
    'file states missing/unloadable/non-dictionary/dictionary with broken sections or entries): NeverFails, RestoreTotal, '
    'AtWorstAbsent, PerRenderer, SaveHeals (round trip and healing as an action property).  One behaviour per distinct state is '
    'replayed on the real Context.persist/restore with real files.  Byte-level fault enumeration binds the abstraction to the '
    'pickle format: EVERY truncation prefix and EVERY single-bit flip of real .paux files, random multi-bit flips and foreign '
    'files are classified by an independent unpickling and the recorded restore/save/restore traces are validated by TLC '
    'against PauxTrace.tla.',
    'DESIGN.md#c20',
    'Trusted: TLC, Paux.tla, the classification of file bytes into abstract states by the harness. Worker processes run under a '
    '1 GiB address-space limit so that a flipped length field yields the MemoryError the code catches rather than a multi-GB '
    'allocation; hostile pickles are out of scope.',
    TECH + '; exhaustive truncation/bit-flip fault enumeration')
CLAIMED['C16'] = ('model_checking',
    'TLC enumerates every layering of 0-3 configuration files and a command line (each independently present/absent, every '
    'type-appropriate text incl. all boolean words in several capitalisations) for one representative option per type in '
    'Config.tla and checks the machine (setFromString / updateFromDict per type, in client.main order) against the documented '
    'precedence (Precedence, InterpCurrent).  Every layering is replayed through the real plasTeX.client.main (run() stubbed, '
    'real ini files, real argparse) on EVERY real option of that type in every section incl. html5 and mathjax-macros, '
    'comparing the option under test with the specification and all other options with their defaults (no cross-talk); '
    'interpolation is read back through the public mapping interface.',
    'DESIGN.md#c16',
    'Trusted: TLC, Config.tla, the concretisation of abstract values. The property is a pure function of the layering, so only '
    'the spec->code direction applies. "Documented default" = the default the option declares.',
    'TLA+ spec (rule + machine layer) checked by TLC; exhaustive spec->code replay of every layering on every real option')
CLAIMED['C19'] = ('model_checking',
    'TLC enumerates every boolean expression tree up to depth 2 over truth atoms and integer comparisons (8008 tests, minimal and '
    'redundant parentheses, every placement of \\not) from IfThen.tla and checks the evaluator machine (infix->postfix with the '
    'code\'s precedence table and prefix handling of \\not, postfix evaluation on a value stack) against the denotation '
    '(EvalIsDenotation, NeverUnderflows, OneValue, termination); WhileDo.tla checks LoopCount for 0-6 iterations over five test '
    'shapes.  Every enumerated test is concretised (\\equal, \\isodd, \\isundefined, \\boolean, \\lengthtest in mixed units and a '
    'length register, literals, \\value, macro-produced numbers, upper/lower-case operators, optional blanks) and run through the '
    'real parser comparing the processed branch and a then/else side-effect counter; seeded random trees of depth 3-5 are run on '
    'the code and validated by TLC re-running the machine on exactly those tokens (IfThenTrace.tla).  The atom catalogue contains comparisons of equal lengths under <, > and =.',
    'DESIGN.md#c19',
    'Trusted: TLC, the denotation/spelling in IfThen.tla, the concretisation table in harness/drivers/c19.py.',
    TECH)
CLAIMED['C01'] = ('model_checking',
    'TLC enumerates all strings up to length 3 over a 23-character adversarial alphabet (escape, braces, $ & # ^ _ ~ %, blank, tab, '
    'LF, CR, NUL, letters, @, digit, non-ASCII and the ^^ images) x 6 category tables (default, @-letter, verbatim, LF-active, '
    'seeded random permutations), all strings up to length 5 over a 10-character sub-alphabet, and strings with a mid-stream '
    '\\catcode change, and checks the Tokenizer machine (iterchars with push-back, one action per branch of __iter__) against the '
    'rule layer Lex (TeXbook ch. 8 with plasTeX\'s named deviations), CatOfClass, NoTwoPars, NeverStuck (no input makes it raise) '
    'and termination.  Every enumerated behaviour (about 0.5 M) is replayed on the real plasTeX.Tokenizer comparing every token '
    '(category, text) and the final state; seeded random strings up to 45 characters over a 43-character alphabet with random tables '
    'and change schedules are tokenized by the real code and re-executed by TLC (TokenizerTrace.tla).  The category tables given to TLC are computed by the rule "the last assignment to a character wins" from a fresh context (not read back from the context under test), after sending characters through other categories first; a disagreement is a violation (table:history).',
    'DESIGN.md#c01',
    'Trusted: TLC, the transcription of TeX\'s lexical rules into Lex, the projection. Category tables in the specification are read '
    'off the real Context after the same catcode() calls. NF-LEX exclusions: hex ^^ab; category 5 only for LF; named deviations '
    'D1 (adjacent paragraph tokens merged), D2 (escape+EOL gives a space), D6 (ignored characters dropped also inside names).',
    TECH)
TECH_REF = 'TLA+ reference machine + rule layer executed and checked by TLC on generated programs; conformance by replaying every program into the real engine'
CLAIMED['C02'] = ('model_checking',
    'Seeded programs of the NF-MACRO macro language (6000 quick / 60000 thorough: \\def/\\gdef with 0-9 undelimited, delimited and '
    'bracketed parameters, blanks in front of undelimited arguments, \\newcommand with optional argument, nested calls in bodies and arguments, inner definitions with ##, \\let, '
    '\\csname, \\expandafter, nested groups) are executed by TLC on the reference machine Expand.tla.  TLC checks at EVERY macro call '
    'that the code-shaped matcher (MatchCode: Definition.invoke parameter by parameter, single-token delimiters without brace '
    'awareness) agrees with TeX\'s rule (MatchRule: shortest prefix at brace depth 0, outer braces stripped) -- SubstExact -- plus '
    'GroupBalanced and NoError, and prints the visible text; the same programs are parsed by the real engine and text and final '
    'context depth compared.',
    'DESIGN.md#c02',
    'Trusted: TLC, the transcription of TeX\'s substitution rules in Expand.tla, the program generator harness/expandgen.py (NF-MACRO). '
    'Programs are generated by the harness and passed to TLC as data; TLC is the reference executor and invariant checker, the state '
    'space per program is a single behaviour.',
    TECH_REF)
CLAIMED['C03'] = ('model_checking',
    'Seeded programs of nested conditionals (NF-COND/NF-NUM: \\iftrue \\iffalse \\ifnum \\ifdim \\ifodd \\ifcase \\ifx \\ifdefined and '
    '\\newif switches with setters, \\else/\\or, depth <= 4, \\ifcase selectors from -2 to beyond the listed cases, macro-produced '
    'operands, side effects planted in branches, inside groups and macro bodies) are executed by TLC on Expand.tla.  At EVERY '
    'conditional TLC checks BranchIsTeX: the linear scanner of processIfContent (nesting counter, case list, \\ifcase indexing) '
    'selects exactly the text the syntactic structure prescribes (BranchRule by recursive descent, inner conditionals opaque).  '
    'Each program ends by printing the side-effect macro and all switches; the real engine\'s text is compared.',
    'DESIGN.md#c03',
    'Trusted: TLC, the transcription of TeX\'s conditional rules in Expand.tla, the generator (NF-COND, NF-NUM).',
    TECH_REF)
CLAIMED['C05'] = ('model_checking',
    'Args.tla: TLC enumerates every signature of up to MaxArgs specifications (star, [], (), <>, mandatory) x every conforming call built '
    'from a fragment catalogue (optional present/absent, nested same-kind brackets, brace groups hiding a closer or an opener, blanks, '
    'single-token arguments, control sequences) x 11 followers and checks the reader machine (readCharacter / readGrouping with nesting '
    'and brace counters / readToken, category codes of url-typed arguments set and put back) against what was written (BindsDeclared, '
    'ConsumesExactly, CatcodesRestored, NeverStuck); every behaviour is replayed (plain and with the bracketed arguments typed url) on '
    'a real Command subclass with that signature comparing the bound token lists, the text left after the invocation and the balance of the '
    'parameter-scanning switch.  A typed-argument table (str, int, float, list with two delimiters, dict, Tok, nox, Dimen, Number) is run '
    'through the real casts.  Numbers.tla: TLC enumerates the bounded numeral grammar (7 sign runs x 16 integer forms in four radices, '
    'character codes and registers; 10 decimal forms x 4 unit prefixes x 13 unit spellings; register multiples; glue with 6 stretch/shrink '
    'forms incl. the three fil orders) x 5 followers with exact rational denotations; each is fed to readInteger/readDimen/readGlue.',
    'DESIGN.md#c05',
    'Trusted: TLC, the fragment catalogue and numeral grammar with their denotations. The numeric scanners are covered by the rule layer '
    '(grammar + denotation) only, as a pure function enumerated case by case; magnitudes are compared by the harness with exact fractions '
    'from the spec\'s unit table (they exceed 32-bit TLC integers).',
    'TLA+ spec (reader machine vs written call; numeral grammar with denotations) enumerated by TLC; every case replayed into the real readers')
CLAIMED['C08'] = ('model_checking',
    'Counters.tla: TLC explores every history (exhaustively up to 3 events quick / 4 thorough, by simulation to 10 / 14 events) of numbered '
    'constructs -- sections of four levels starred or not, equations, eqnarray rows with \\nonumber patterns, figure and table captions, '
    'theorems with own / shared / within-section counters, nested lists and items, \\appendix, \\setcounter, \\addtocounter, \\stepcounter -- '
    'for article and book and several numbering depths, and checks the machine (plasTeX\'s counters, reset hierarchy, per-construct stepping '
    'and capture, List.invoke\'s explicit resets) against LaTeX\'s rules (NumbersAreLaTeX: printed numbers equal the rule layer\'s; '
    'TransitiveReset).  Every emitted history is concretised as a LaTeX document, parsed by the real engine, and the printed number of every '
    'numbered object in document order compared.  NumberFormats.tla: TLC checks Roman numerals 1..4999 against the subtractive grammar and '
    'tabulates them; the table is compared with Counter.Roman/roman/Alph/alph/arabic for every value.',
    'DESIGN.md#c08',
    'Trusted: TLC, the transcription of LaTeX\'s counter rules and class formats (article, book) in Counters.tla, the concretiser/projection in '
    'harness/drivers/c08.py. Page numbers, \\numberwithin and language formats out of scope.',
    TECH)
CLAIMED['C09'] = ('model_checking',
    'Crossref.tla: for several assignments of labels to objects and references to labels (existing, dangling, two labels on one object, '
    'many references to one label) TLC explores ALL interleavings of object starts, \\label and \\ref events -- every relative order of '
    'labels and references -- and checks the machine (Context.label / Context.ref: label table, unresolved-reference table with '
    'placeholders, back-patching loop) against the order-independent rule Target(r): ResolvesToLabelled, ResolvedIffLabelKnown, '
    'PendingEmptiedForKnownLabels, DistinctIds.  Every complete interleaving (quick: up to 6000 per configuration) is concretised as a LaTeX '
    'document whose objects are sections, theorems, list items, figure/table captions or equations and parsed by the real engine; each '
    '\\ref/\\pageref node\'s idref is compared BY IDENTITY with the k-th numbered object, its number with the target\'s, dangling references '
    'must hold a numberless placeholder, identifiers and the final unresolved table are compared.',
    'DESIGN.md#c09',
    'Trusted: TLC, Crossref.tla, the concretiser (object kinds chosen per behaviour, seeded). Cross-document labels are C20; the number '
    'shown in rendered output is C14.',
    TECH)
CLAIMED['C07'] = ('model_checking',
    'Digest.tla: TLC generates EVERY document of a bounded NF-DOC grammar (words, \\par, sections of three levels, quote and itemize '
    'environments, \\item, groups, commands with a text argument, font declarations, a section-level command without content (\\printindex); '
    'up to 6 items quick / 7 thorough, nesting <= 3 / 4) as the stream of '
    'levelled, depth-stamped items the digest stage sees, runs the digest protocol (one rule per node class: TeX.parse, SectionUtils.digest, '
    'Environment.digest, bgroup.digest, digestUntil(item), with push-back) and checks DigestBuildsIntended (the tree equals the author\'s '
    'containment recorded by the generator), OnceInOrder, SectionsNestByLevel, NeverStuck.  The generated documents (quick: 25000, all with '
    '<= 4 items plus a seeded sample) are printed as LaTeX with marker words and parsed by the real engine: per word the chain of containers '
    '(kind + ordinal, paragraphs transparent) and the depth-first word order are compared, and on every real tree: parent links, sections '
    'containing only paragraphs and deeper sections, no paragraph directly in a paragraph, quote/dash substitution in text but not in \\verb or '
    'math.  Paragraphs.tla transcribes Macro.paragraphs (machine) against the cutting rule (MachineIsRule, EveryWordInOneParagraph, '
    'NoEmptyParagraph, BlockAlone) for every content sequence of <= 6 / 7 items over {word, blank, \\par, block element, section-level element} '
    'x force; each is rebuilt from real nodes and grouped by the real paragraphs().  thorough additionally checks the tree clauses on the '
    'repository\'s own sample documents.',
    'DESIGN.md#c07',
    'Trusted: TLC, the grammar/intended-container rule of Digest.tla, the cutting rule of Paragraphs.tla, the concretiser. Constructs outside '
    'the grammar (tables, floats, math environments) are covered by C10/C11.',
    TECH)
CLAIMED['C10'] = ('model_checking',
    'Arrays.tla: for six column specifications (bars, p{}, @{} also leading, *{n}{} repetitions) TLC generates every table whose first row '
    'ranges over the whole cell grammar (ordinary cells of several content kinds, \\multicolumn with its own bars, spans summing to the '
    'column count), with \\hline, one \\cline{a-b} and further simpler rows and an optional trailing \\hline, checks compileColspec\'s token loop '
    'with pushed-back repetitions against the flattened specification (ColspecCompiles) and applyBorders\' running column counter against '
    'the expected ruled sides (BordersOnAdjacentCellsOnly, FullRowSpansSumToCols).  The tables (quick: a 12000-sample per family of about 390000) '
    'are printed as LaTeX and parsed: rows, cells in order with marker text, colspan, the four ruled sides, numCols and absence of definition leaks '
    'between cells are compared.  Lists: every list-bearing document generated by Digest.tla (C07) is printed with itemize / enumerate / '
    'description and the list shape compared: one item per \\item in order, words up to the next \\item of the same list, nested lists '
    'inside their item, terms attached.',
    'DESIGN.md#c10',
    'Trusted: TLC, Arrays.tla and the rule-layer conventions for which sides a rule command marks (DESIGN.md C10), Digest.tla for lists, the '
    'concretisers. longtable/tabularx/booktabs not claimed.',
    TECH)
CLAIMED['C11'] = ('model_checking',
    'Verbatim.tla: TLC enumerates every body built from up to 3 (thorough 4) chunks of a 22-chunk adversarial catalogue (backslashes, braces, %, '
    'ligature-like sequences, runs of blanks, tabs, line breaks, ^^-notation, every partial end marker, the command-form end marker) that does '
    'not contain the complete end marker and checks the collecting machine of VerbatimEnvironment.invoke against the rule (BodyExact, '
    'RestUntouched, Ends).  Every body is parsed inside a verbatim environment followed by ordinary text: the environment\'s text must be the '
    'body exactly, the following text processed normally, the context balanced; \\verb is run for 30 delimiters x 11 bodies x star.  '
    'MathSource.tla: TLC enumerates every formula tree up to depth 2 (scripts, primes, \\frac, \\sqrt[..], \\left..\\right, \\mbox with nested '
    'math, spacing, user macros) with written and expected token lists; each is parsed in $..$, \\(..\\), \\[..\\], equation and \\textbf{..$..$}; '
    'node.source and the text handed to MathJax are re-tokenized with the real Tokenizer and compared token for token.',
    'DESIGN.md#c11',
    'Trusted: TLC, the chunk catalogue and formula grammar with their expected token lists, the real Tokenizer (bound by C01) used to '
    're-tokenize. The source reconstruction is a pure function: TLC is enumerator and reference evaluator there (stated as such).',
    TECH)
CLAIMED['C18'] = ('model_checking',
    'Index.tla: over 12 keys (mixed case, accented, numeric, symbol and underscore initials, sort@display, quoted special character) on 13 key '
    'paths of 1-3 levels and three page formats TLC enumerates every sequence of up to 3 \\index entries (and simulates sequences up to 6 / 8), '
    'checks the machine (IndexEntry ordering with a stable sort, the prefix-merge loop of IndexUtils.digest, the heading loop) against the rule: '
    'EveryEntryOnceUnderItsPath (tree = GroupBy(path), one page per occurrence in document order), SiblingsSortedByRank, OneGroupPerHeading -- '
    'for the collation ranks of the collator the code under test actually selected.  Each emitted index is concretised as a document with the '
    'entries scattered over sections and \\printindex, parsed, and the printindex node compared line by line (display text, sort key, pages with '
    'see flags), the headings and the column partition.  SplitColumns.tla: every size sequence (<= 5 / 6 entries) x 1-4 columns is checked by '
    'TLC (ColumnsPartitionInOrder, ExactlyCols) and replayed on the real splitColumns.',
    'DESIGN.md#c18',
    'Trusted: TLC, Index.tla/SplitColumns.tla, the concretiser; collation ranks and headings are computed by the harness from the real collator '
    'and unidecode (and the harness checks the selection of the collator with its own copy of the rule).',
    TECH)
CLAIMED['C13'] = ('model_checking',
    'Split.tla: TLC enumerates every document of up to 3 (thorough 4) sectioning units (level 1-3 without skipped levels, labelled?, footnote?, '
    'title from a set with a repeated title and one made of characters illegal in file names) x split level 0-3 x filename template (default '
    '`index [$id, sect$num(4)]`, `$title`, single name) and checks the machine layer (pre-order filename requests with static/alternative/'
    'numbered candidates, Renderable.__str__ omitting file-owning children, footnotes gathered by the nearest file-owning section) against '
    'the rule layer: MachineIsRule (file content = markers of the units whose nearest ancestor-or-self at or above the split level is that '
    'file, in order, footnotes last), EveryWordOnceInOneFile, UnitsAtOrAboveLevelOwnFile, NamesDistinct.  Every emitted behaviour (quick: all '
    'with <= 2 units, 5000 sampled with 3) is rendered by the real Compile.run into a scratch directory: the set of html files, their names and '
    'the sequence of body/footnote markers per file must equal the specification; variants: book class (chapter level 0), XHTML renderer, split '
    'level -10 and 6, a different bad-chars set, $title(1)/$num(2); every 16th document is rendered twice and compared.  Further variants: a bracket-less template (`index sect$num(4)`), footnotes with identical wording in several units.',
    'DESIGN.md#c13',
    'Trusted: TLC, Split.tla, the concretiser, marker extraction from html by tag stripping. Generated identifiers (a0000000012) are '
    'normalised in the run-twice comparison because C17 owns them.',
    TECH)
CLAIMED['C14'] = ('model_checking',
    'Split.tla with references: TLC enumerates documents x split level x template x references (from any unit to a labelled unit or to the '
    'numbered equation of a unit; up to 1 reference exhaustively, up to 3 over 5 units by simulation), checks LinksLand (the file of the '
    'target url is produced and a fragment target is written in it), NavIsAChain and NamesDistinct on the machine layer (Renderable.url, '
    'SectionUtils.links) and prints the predicted href and shown number of each reference and prev/next/up of each file.  Each behaviour is '
    'rendered by the real pipeline and the href and text of every reference, <link rel=prev|next|up> of every file, the table of contents '
    'printed on every page (Toc(depth, toc-non-files) of the specification, incl. the proxy cut at toc-depth), the footnote-mark -> '
    'footnote pairing, and the home file of index links and citations are compared with the specification; on every output (plus variants: '
    'index + bibliography, toc-depth 0/1, toc-non-files, base-url, minimal theme, XHTML, theme extras copied) a link-closure pass checks that '
    'every non-external href/src names a produced file and an existing id, ids are unique per file and all pages are reachable from the '
    'start page when the theme prints a table of contents.  Further variants: base-url with a path and no trailing slash; documents whose units are equal as trees (same title and body, no label) with prev/next/up compared against the specification.',
    'DESIGN.md#c14',
    'Trusted: TLC, Split.tla, the concretiser, html.parser. Documents are rendered in an empty directory (a stale .paux of another run '
    'with the same labels changes hrefs; that is C03/C09 territory).',
    TECH)
CLAIMED['C12'] = ('model_checking',
    'Escape.tla: texts are sequences of symbols (markup metacharacters, a blank, a character above 127, and word symbols that make entity-, tag- '
    'and placeholder-like strings expressible in a few symbols).  Machine layer = the stages of the text path (textDefault hook, template '
    'emission into element content or a double-quoted attribute, image-placeholder post-processing, escape-high-chars); rule layer = Dec, the '
    'HTML tokenizer restricted to the alphabet (tag/comment open, attribute end, named references with/without semicolon incl. the attribute '
    'exception, numeric references).  TLC checks ShowsAsText and HighCharsOnlyChangeBytes for every text of <= 4 (thorough 5) symbols over 16 '
    'symbols x context x high; the as-built constants (AttrEscaped, PlaceholderGuarded = FALSE) reproduce F9/F10 as TLC counterexamples.  '
    'spec->code: every text of <= 2/3 symbols over 22 symbols plus simulated longer ones and hand-picked shapes are placed in 14 text-bearing '
    'positions, rendered by the real pipeline (HTML5 default/minimal, XHTML; escape-high-chars on/off) and parsed with html.parser: between '
    'the markers exactly the characters of the text, no tag/comment/declaration, attribute values intact, pure ASCII when escaping is on.  '
    'code->spec: the raw bytes emitted between the markers are tokenised and TLC (EscapeTrace.tla) decodes each distinct emission with Dec.',
    'DESIGN.md#c12',
    'Trusted: TLC, Escape.tla (Dec is my transcription of the HTML tokenizer rules for this alphabet; html.parser is the independent second '
    'reader), the tokeniser, expected characters = symbols after TeX ligatures.  The routing of text through ~300 template files is not '
    'modelled: positions are covered by rendering, so for templates the assurance is exhaustive small-scope testing of the real renderer.',
    TECH)
CLAIMED['C17'] = ('model_checking',
    'Isolation.tla: interpreter-wide state (parameter enable level, math stack depth, list depth, the \\( \\) switch, values held by the '
    'parameter classes, level of the shared index classes) and documents = class x sequence of state-touching features (register assignment '
    'and use of built-in and package-defined registers, an argument of type any, $..$, \\(..\\), a list, \\input inside a list / inside math, a '
    'numbered section, \\printindex) x ending (normal, inside $, inside a list, exception while an '
    'argument is read, exception elsewhere); every action is shaped like the code path it stands for and four constants select as-built or '
    'repaired code (AnyEnables, ParseRestores, ClassPerDoc, RegsPerDoc; as-built reproduces F11-F15 as TLC counterexamples).  TLC checks '
    'CleanAfterDocument, ResultIndependent and AssignmentsRun over every history of 2 documents x <= 2 (thorough 3) features (4.5M states).  '
    'spec->code: every history of two one-feature documents and every two-feature document is run by the real engine in one freshly forked '
    'interpreter: observations of the last document, the interpreter-wide state read from the real classes, and canonical toXML() against '
    'the same document alone in a fresh interpreter.  code->spec: seeded random histories (<= 4 documents x <= 4 features) validated by TLC '
    'against IsolationTrace.tla (verdict names document and field).  A generic detector diffs ALL class attributes of all classes in plasTeX '
    'modules before/after every document; for a sample of histories every document is also rendered and the files of the last compared '
    'with a solo run.',
    'DESIGN.md#c17',
    'Trusted: TLC, Isolation.tla, the concretiser and DOM observers, fork() giving a pristine interpreter.  Generated identifiers are '
    'renumbered (the property allows their spelling to differ); @arguments/@locals/@hasgenid class caches are not compared.',
    TECH)

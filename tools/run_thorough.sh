#!/bin/sh
# run every thorough check one after the other; log to /verif/logs/thorough-<id>.log (not committed)
cd "$(dirname "$0")/.."
mkdir -p logs
for id in "$@"; do
  start=$(date +%s)
  ./check $id --tier thorough > logs/thorough-$id.log 2>&1
  rc=$?
  echo "$id rc=$rc $(( $(date +%s) - start ))s $(tail -1 logs/thorough-$id.log | cut -c1-160)"
done

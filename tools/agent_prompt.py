#!/venv/bin/python
"""Print the prompt given to a sub-agent that seeds a property-breaking change (only the property text)."""
import json, sys
pid, n = sys.argv[1], int(sys.argv[2]) if len(sys.argv) > 2 else 2
p = [json.loads(l) for l in open('/verif/properties.jsonl') if json.loads(l)['id'] == pid][0]
wt = '/tmp/wt-%s' % pid.lower()
out = '/tmp/out-%s' % pid.lower()
print(f'''You are helping to evaluate a verification effort for plasTeX (a pure-Python LaTeX processor). You have your own scratch git worktree of the repository at {wt} (work ONLY there and in {out}; never touch /repo, never read or write anything under /verif, do not look for other people's checks).

Here is a semantic property that plasTeX is supposed to satisfy:

  Title: {p['title']}
  Statement: {p['statement']}
  Quantified over: {p['quantifier']['text']}
  Relevant files: {', '.join(p['anchors']['files'])}

Your task: produce {n} DIFFERENT, realistic changes (bugs a developer could plausibly introduce in a refactoring or "optimisation") to the plasTeX sources in {wt}/plasTeX that BREAK this property, while the package still imports and the existing test suite still passes. Prefer changes that need something specific to manifest -- a particular multi-step sequence of operations, an unusual but legal input, a particular nesting/order, or two cooperating sites that each look fine alone -- NOT ones that any ordinary use would expose at once. Each change should be small (1-15 lines).

For each change k = 1..{n}:
 1. Make the change in the worktree, then run the existing tests that matter from inside the worktree:  cd {wt} && /venv/bin/python -m pytest -q -p no:cacheprovider unittests --timeout=900 2>&1 | tail -5   (the full suite has 360 passing tests and 58 that always fail offline because they need pdflatex etc.; a change is acceptable only if the set of PASSING tests is unchanged -- compare against a run without your change: the same 360 must pass).  Running with cwd={wt} makes `import plasTeX` use the worktree.
 2. Write a demonstration program {out}/demo_k.py (plain Python, run as `cd {wt} && /venv/bin/python {out}/demo_k.py`) that exits 0 when the property holds for its input (i.e. on the unchanged code) and exits 1, printing what went wrong, with your change applied. The demo must exercise the public behaviour the property talks about. IMPORTANT: start every demo with `import sys, os; sys.path.insert(0, os.getcwd())` so that `import plasTeX` picks up the worktree (a script's own directory, not the cwd, is on sys.path).
 3. Save the change as {out}/patch_k.diff  (cd {wt} && git diff > {out}/patch_k.diff), write {out}/meta_k.json with keys: property ("{pid}"), summary (one sentence), needs (what specific input/sequence is needed for the breakage to manifest), files (list).
 4. Revert the worktree (cd {wt} && git checkout -- .) and confirm demo_k.py exits 0 on the unchanged code, then apply the patch again (git apply) and confirm it exits 1, then revert again.

Finish with the worktree clean (git status shows no changes). In your final answer list, per change, the summary, the 'needs', and the test results you observed (numbers of passed tests with and without the change, demo exit codes). Never use `git stash` (stashes are shared between worktrees and other people work in sibling worktrees); use only `git diff`, `git apply`, `git checkout -- .`. Lines of the form `if _verif.ENABLED: _verif.emit(...)` are inert instrumentation; leave them alone. Do not modify any test files. Do not make changes that merely raise exceptions everywhere or that break ordinary documents at once.''')
